"""C17 -- point-cloud tree construction (axis-role clause only)."""

from __future__ import annotations

import ast

from ..fold import Folder, Unfoldable
from ..model import AnalysisError, dotted, norm_src, own_nodes
from ..rules import tables
from ..util import const_int, kwarg, names_in

MST = "swcgeom.transforms.mst"


def vector_axis(e: ast.AST):
    """Axis (0 / 1) of a 2-D cost matrix a per-node vector expression is broadcast along."""
    if isinstance(e, ast.Name):
        return 1, f"`{e.id}` is rank 1: numpy aligns it with the LAST axis"
    if isinstance(e, ast.Subscript) and isinstance(e.slice, ast.Tuple) and len(e.slice.elts) == 2:
        a, b = e.slice.elts
        none = lambda x: (isinstance(x, ast.Constant) and x.value is None) or norm_src(x) == "np.newaxis"
        full = lambda x: isinstance(x, ast.Slice) and x.lower is None and x.upper is None
        if full(a) and none(b):
            return 0, f"`{norm_src(e)}` is a column: aligned with axis 0"
        if none(a) and full(b):
            return 1, f"`{norm_src(e)}` is a row: aligned with axis 1"
    if isinstance(e, ast.Call) and isinstance(e.func, ast.Attribute) and e.func.attr == "reshape":
        args = e.args[0].elts if len(e.args) == 1 and isinstance(e.args[0], (ast.Tuple, ast.List)) else e.args
        vals = [const_int(a) for a in args]
        if vals == [-1, 1]:
            return 0, f"`{norm_src(e)}` is a column: aligned with axis 0"
        if vals == [1, -1]:
            return 1, f"`{norm_src(e)}` is a row: aligned with axis 1"
    return None, f"cannot read the alignment of `{norm_src(e)}`"


class _Elem:
    """Element-wise reading of broadcast expressions: the value of `expr[a, b]` / `expr[a]` / a scalar expression as an exact
    rational function (sa/poly.py) over the atoms  <vector>[index], <matrix>[index, index], self.<option>.  Local names bound
    exactly once are read through; `ma.array(x, mask=...)` is x at an unmasked cell; a pairwise-distance matrix is symmetric."""

    def __init__(self, d):
        from ..poly import R, NotPolynomial
        self.R, self.NP = R, NotPolynomial
        self.d = d
        self.defs = {}
        for n in own_nodes(d):
            if isinstance(n, ast.Assign) and len(n.targets) == 1 and isinstance(n.targets[0], ast.Name):
                self.defs.setdefault(n.targets[0].id, []).append(n.value)

    def _sym_matrix(self, name, a, b):
        vs = self.defs.get(name, [])
        symmetric = len(vs) == 1 and any(t in norm_src(vs[0]) for t in ("linalg.norm", "cdist", "np.sqrt"))
        if symmetric:
            a, b = sorted((a, b))
        return self.R.sym(f"{name}[{a},{b}]")

    def scal(self, e, depth=0):
        R = self.R
        if depth > 6:
            raise self.NP(e, "too deep")
        if isinstance(e, ast.Constant) and isinstance(e.value, (int, float)) and not isinstance(e.value, bool):
            from fractions import Fraction
            return R.const(Fraction(str(e.value)) if isinstance(e.value, float) else e.value)
        if isinstance(e, ast.Attribute) and isinstance(e.value, ast.Name) and e.value.id == "self":
            return R.sym(f"self.{e.attr}")
        if isinstance(e, ast.Name):
            vs = self.defs.get(e.id, [])
            if len(vs) == 1:
                return self.scal(vs[0], depth + 1)
            raise self.NP(e, "name without a single binding")
        if isinstance(e, ast.UnaryOp) and isinstance(e.op, ast.USub):
            return -self.scal(e.operand, depth + 1)
        if isinstance(e, ast.BinOp) and isinstance(e.op, (ast.Add, ast.Sub, ast.Mult, ast.Div)):
            a, b = self.scal(e.left, depth + 1), self.scal(e.right, depth + 1)
            return {ast.Add: lambda: a + b, ast.Sub: lambda: a - b, ast.Mult: lambda: a * b, ast.Div: lambda: a / b}[type(e.op)]()
        if isinstance(e, ast.Call) and (dotted(e.func) or "").rsplit(".", 1)[-1] in ("float", "item") and len(e.args) <= 1:
            return self.scal(e.args[0] if e.args else e.func.value, depth + 1)
        if isinstance(e, ast.Subscript):
            sl = e.slice
            if isinstance(sl, ast.Tuple) and len(sl.elts) == 2 and all(isinstance(x, ast.Name) for x in sl.elts):
                return self.elem(e.value, sl.elts[0].id, sl.elts[1].id, depth + 1)
            if isinstance(sl, ast.Name) and isinstance(e.value, ast.Name):
                vs = self.defs.get(e.value.id, [])
                # a vector allocated by np.zeros/... and filled element-wise is an atom per index
                return R.sym(f"{e.value.id}[{sl.id}]")
        raise self.NP(e, "scalar expression kind")

    def elem(self, e, a, b, depth=0):
        R = self.R
        if depth > 6:
            raise self.NP(e, "too deep")
        if isinstance(e, ast.Name):
            vs = self.defs.get(e.id, [])
            if len(vs) == 1 and isinstance(vs[0], (ast.BinOp, ast.Call)) and not any(t in norm_src(vs[0]) for t in ("linalg.norm", "cdist", "np.zeros", "np.ones", "np.full", "np.empty")):
                return self.elem(vs[0], a, b, depth + 1)
            return self._sym_matrix(e.id, a, b)
        if isinstance(e, ast.Call):
            fn = dotted(e.func) or ""
            if fn in ("ma.array", "np.ma.array", "ma.masked_array", "np.ma.masked_array", "ma.MaskedArray", "np.ma.MaskedArray") and e.args:
                return self.elem(e.args[0], a, b, depth + 1)
            if fn in ("np.where", "numpy.where") and len(e.args) == 3:
                return self.elem(e.args[2], a, b, depth + 1)
            raise self.NP(e, "call in a matrix expression")
        if isinstance(e, ast.BinOp) and isinstance(e.op, (ast.Add, ast.Sub, ast.Mult, ast.Div)):
            x, y = self.elem(e.left, a, b, depth + 1), self.elem(e.right, a, b, depth + 1)
            return {ast.Add: lambda: x + y, ast.Sub: lambda: x - y, ast.Mult: lambda: x * y, ast.Div: lambda: x / y}[type(e.op)]()
        if isinstance(e, (ast.Constant, ast.Attribute)):
            return self.scal(e, depth + 1)
        ax, _why = vector_axis(e)
        if isinstance(e, ast.Subscript) and ax is not None and isinstance(e.value, ast.Name):
            return R.sym(f"{e.value.id}[{a if ax == 0 else b}]")
        if isinstance(e, ast.Call) is False and isinstance(e, ast.Subscript) is False:
            raise self.NP(e, "matrix expression kind")
        raise self.NP(e, "matrix expression kind")


def run(ctx, col, tier):
    repo = ctx.repo
    col.rule("R-AXIS", "the balancing term (factor x accumulated path length) is broadcast along the "
             "axis of the cost matrix that indexes the *already connected* point (the parent), as read "
             "from the statements that consume the arg-min pair", floor=1)
    col.rule("R-ROLES", "the arg-min pair is used consistently: parent's child count grows, the new "
             "point records the parent, its path length is the parent's plus the edge, it becomes "
             "connected and can no longer be chosen as a child; the soma/first point is the root with "
             "parent -1 and id 0; n-1 attachments", floor=7, shape=True)
    col.rule("R-LIMIT", "branching-limit table over (child count ? limit) x root x exempt: a point is "
             "closed for further children iff the limit is on, its count reached the limit and it is "
             "not an exempt root", floor=12, exhaustive=True)
    col.rule("R-MASK", "excluded pairs cannot win the arg-min: the cost is a masked array, or the "
             "mask is applied with an infinite sentinel (a finite sentinel computed from the edge "
             "lengths alone is exceeded by edge + factor x path length)", floor=1)
    col.rule("R-ACC", "the accumulated path length is a float array of its own (its dtype does not "
             "follow the input points): lengths are not truncated for integer coordinates", floor=1)
    col.rule("R-CONST", "PointsToMST is the balanced variant with the constant factor 0", floor=1, shape=True)
    col.not_decided += ["minimality of the total length, the greedy selection over the run-time cost matrix, "
                        "mask bookkeeping as values: no sound static argument in reach"]
    col.assumptions += ["numpy broadcasting aligns trailing axes"]

    d = repo.get_def(f"{MST}.PointsToCuntzMST.__call__")
    q = d.qualname
    unr = [n for n in own_nodes(d) if isinstance(n, ast.Assign) and isinstance(n.value, ast.Call)
           and dotted(n.value.func) == "np.unravel_index"]
    if len(unr) != 1 or not isinstance(unr[0].targets[0], ast.Tuple):
        raise AnalysisError("anchor-vanished: `(i, j) = np.unravel_index(cost.argmin(), cost.shape)`")
    ax0, ax1 = [e.id for e in unr[0].targets[0].elts]
    cost_name = norm_src(unr[0].value.args[0]).split(".")[0]
    pid_st = [n for n in own_nodes(d) if isinstance(n, ast.Assign) and isinstance(n.targets[0], ast.Subscript)
              and norm_src(n.targets[0].value) == "pid" and isinstance(n.value, ast.Name)]
    if len(pid_st) != 1:
        raise AnalysisError("anchor-vanished: `pid[child] = parent`")
    child, parent = norm_src(pid_st[0].targets[0].slice), pid_st[0].value.id
    if {child, parent} != {ax0, ax1}:
        col.unresolved("R-AXIS", q, d.loc(pid_st[0]), "roles of the arg-min pair", f"pid[{child}] = {parent} does not use ({ax0}, {ax1})")
        return
    parent_axis = 0 if parent == ax0 else 1
    cost = [n for n in own_nodes(d) if isinstance(n, ast.Assign) and norm_src(n.targets[0]) == cost_name]
    if len(cost) != 1:
        raise AnalysisError("anchor-vanished: cost assignment")
    # the term multiplied by self.bf
    bal = None
    for b in ast.walk(cost[0].value):
        if isinstance(b, ast.BinOp) and isinstance(b.op, ast.Mult):
            if norm_src(b.left) == "self.bf":
                bal = b.right
            elif norm_src(b.right) == "self.bf":
                bal = b.left
    if bal is None:
        col.unresolved("R-AXIS", q, d.loc(cost[0]), "balancing term", "no `self.bf * <vector>` in the cost")
        return
    axis, why = vector_axis(bal)
    acc_name = next(iter(names_in(bal) - {"np"}), None)
    col.judge(axis is not None, axis == parent_axis, "R-AXIS", q, d.loc(cost[0]),
              f"balancing term aligned with the parent axis (axis {parent_axis}: `pid[{child}] = {parent}`, "
              f"({ax0}, {ax1}) = unravel_index)", why,
              f"{why}, i.e. with the {'child' if axis != parent_axis else 'parent'} index `{ax1 if axis == 1 else ax0}`; "
              f"the accumulated length of a not yet connected point is still 0, so the balancing factor has no effect",
              why, stmt="alignment", facts={"parent_axis": parent_axis, "term": norm_src(bal)})
    # masking of excluded pairs
    cv = cost[0].value
    fn = dotted(cv.func) if isinstance(cv, ast.Call) else None
    if fn in ("ma.array", "np.ma.array", "ma.masked_array", "np.ma.masked_array", "ma.MaskedArray", "np.ma.MaskedArray") and kwarg(cv, "mask") is not None:
        col.check(norm_src(kwarg(cv, "mask")) == "mask", "R-MASK", q, d.loc(cost[0]), "arg-min over a masked array (masked cells never win)",
                  norm_src(cv)[:80], f"mask argument is `{norm_src(kwarg(cv, 'mask'))}`", stmt="mask")
    elif fn in ("np.where", "numpy.where") and len(cv.args) == 3:
        sent = cv.args[1]
        sname = norm_src(sent)
        defs = [n.value for n in own_nodes(d) if isinstance(n, ast.Assign) and norm_src(n.targets[0]) == sname] if isinstance(sent, ast.Name) else [sent]
        txt = " ".join(norm_src(x) for x in defs)
        infinite = any(t in txt for t in ("np.inf", "math.inf", "float('inf')", "np.finfo", "sys.float_info.max", "np.Inf"))
        mentions_path = acc_name is not None and any(isinstance(x, ast.Name) and x.id == acc_name for v in defs for x in ast.walk(v))
        if norm_src(cv.args[0]) != "mask":
            col.unresolved("R-MASK", q, d.loc(cost[0]), "excluded pairs cannot win the arg-min", f"`{norm_src(cv)[:80]}` not understood", stmt="mask")
        elif infinite:
            col.ok("R-MASK", q, d.loc(cost[0]), "excluded pairs get an infinite cost", txt[:80], stmt="mask")
        elif not mentions_path:
            col.bad("R-MASK", q, d.loc(cost[0]), "excluded pairs cannot win the arg-min",
                    f"excluded pairs get the finite cost `{txt[:60]}`, which does not grow with the accumulated path length: once "
                    f"edge + factor x path length of every admissible pair exceeds it, an excluded pair (e.g. the root with itself) "
                    f"wins the arg-min", stmt="mask")
        else:
            col.unresolved("R-MASK", q, d.loc(cost[0]), "excluded pairs cannot win the arg-min", f"finite sentinel `{txt[:60]}`: dominance not decided", stmt="mask")
    else:
        col.unresolved("R-MASK", q, d.loc(cost[0]), "excluded pairs cannot win the arg-min", f"`{norm_src(cv)[:80]}` is neither a masked array nor np.where(mask, ...)", stmt="mask")
    # accumulator allocation
    alloc = [n for n in own_nodes(d) if isinstance(n, ast.Assign) and norm_src(n.targets[0]) == acc_name]
    if len(alloc) == 1 and isinstance(alloc[0].value, ast.Call):
        a = alloc[0].value
        an = dotted(a.func) or ""
        dt = kwarg(a, "dtype")
        floaty = dt is not None and any(t in norm_src(dt) for t in ("float", "np.double"))
        if an in ("np.zeros", "np.empty", "np.full") and (dt is None or floaty):
            col.ok("R-ACC", q, d.loc(alloc[0]), "path-length accumulator is a float array of its own", norm_src(a), stmt="acc-alloc")
        elif an.endswith("_like") and not floaty:
            col.bad("R-ACC", q, d.loc(alloc[0]), "path-length accumulator is a float array of its own",
                    f"`{norm_src(alloc[0])}` gives the accumulator the dtype of the input points: for integer coordinates "
                    f"every accumulated length is truncated and the attachment rule edge + factor x path length is evaluated on wrong lengths",
                    stmt="acc-alloc")
        elif dt is not None and not floaty:
            col.bad("R-ACC", q, d.loc(alloc[0]), "path-length accumulator is a float array of its own", f"dtype `{norm_src(dt)}` is not floating", stmt="acc-alloc")
        else:
            col.unresolved("R-ACC", q, d.loc(alloc[0]), "path-length accumulator is a float array of its own", norm_src(a), stmt="acc-alloc")
    else:
        col.unresolved("R-ACC", q, d.loc(), "path-length accumulator is a float array of its own", "allocation not found", stmt="acc-alloc")
    # roles
    src = [norm_src(s) for s in ast.walk(d.node) if isinstance(s, (ast.Assign, ast.AugAssign))]
    R = "R-ROLES"
    col.check(f"furcations[{parent}] += 1" in src, R, q, d.loc(), "the parent's child count grows", "", "furcations[parent] += 1 missing", stmt="count")
    acc_ok = any(s in src for s in (f"{acc_name}[{child}] = {acc_name}[{parent}] + dis[{parent}, {child}]",
                                    f"{acc_name}[{child}] = {acc_name}[{parent}] + dis[{child}, {parent}]"))
    acc_st = [n for n in own_nodes(d) if isinstance(n, ast.Assign) and len(n.targets) == 1 and norm_src(n.targets[0]) == f"{acc_name}[{child}]"]
    decided = False
    acc_by_value = None
    if len(acc_st) == 1 and not acc_ok:
        # decide by value: the stored expression, read element-wise through the local definitions, against  acc[parent] + dis[parent, child]
        try:
            ev = _Elem(d)
            got = ev.scal(acc_st[0].value)
            want = ev.R.sym(f"{acc_name}[{parent}]") + ev._sym_matrix("dis", parent, child)
            decided = True
            same = got.same(want)
            acc_by_value = same
            col.check(same, R, q, d.loc(acc_st[0]), "the new point's path length is the parent's plus the edge length (element-wise value of the stored expression)",
                      f"{norm_src(acc_st[0])} == {want}", f"`{norm_src(acc_st[0])}` stores {got}, not {want}: the path length of the new point is not the parent's "
                      f"path length plus the edge, so the balancing term of every later attachment below it is computed from a wrong length", stmt="acc", definite=True)
        except Exception as x:  # noqa: BLE001 -- not a polynomial / unknown form: fall back to the shape rule
            decided = False
    if not decided:
        col.check(acc_ok, R, q, d.loc(), "the new point's path length is the parent's plus the edge length", "",
                  f"{acc_name}[child] = {acc_name}[parent] + dis[parent, child] missing", stmt="acc")
    col.check(f"conn[{child}] = True" in src, R, q, d.loc(), "the new point becomes connected", "", "conn[child] = True missing", stmt="conn")
    row = (lambda v: f"mask[{v}, :]") if parent_axis == 0 else (lambda v: f"mask[:, {v}]")
    colm = (lambda v: f"mask[:, {v}]") if parent_axis == 0 else (lambda v: f"mask[{v}, :]")
    col.check(f"{colm(child)} = True" in src and f"{row(child)} = conn" in src, R, q, d.loc(),
              "the new point can no longer be attached as a child, and can now act as parent of the unconnected points",
              "", "mask update for the new point is not (child column closed, parent row = connected flags)", stmt="mask-new")
    col.check(f"{row(parent)} = True" in src and f"{colm(parent)} = True" in src, R, q, d.loc(),
              "a saturated point is closed in both roles", "", "saturation does not close the parent's row and column", stmt="mask-sat")
    init = ["pid = np.full(n, fill_value=-1)", "conn[0] = True", f"{row(0)} = False", "mask[0, 0] = True"]
    col.check(all(s in src for s in init), R, q, d.loc(), "point 0 is the root (parent -1, connected, open as parent)", "",
              f"initial state differs: {[s for s in init if s not in src]}", stmt="init")
    loops = [n for n in own_nodes(d) if isinstance(n, ast.For) and norm_src(n.iter) == "range(n - 1)"]
    col.check(len(loops) == 1, R, q, d.loc(), "exactly n-1 attachments", "", "main loop is not range(n - 1)", stmt="n-1")
    col.check("points = np.concatenate([[soma], points])" in src and "dic[names.type][0] = self.types.soma" in src
              and any(s.startswith("dic = {names.id: np.arange(n)") for s in src), R, q, d.loc(),
              "a given soma is put first (id 0) and typed as soma; ids are 0..n-1", "", "soma/ids set-up differs", stmt="soma")
    # the soma joins the cloud by a promoting operation: np.insert / item assignment cast the soma to the cloud's dtype (an integer voxel cloud truncates a fractional soma)
    col.rule("R-SOMACAST", "the given soma enters the point array at its own precision: it is joined by concatenate / vstack / stack (dtype promotion), never written into an array of the "
             "cloud's dtype (np.insert, np.put, item assignment into points / a buffer allocated with points.dtype or *_like(points)): an integer voxel cloud would truncate a fractional soma", floor=1)
    n_cast = 0
    like = {a.targets[0].id for a in own_nodes(d) if isinstance(a, ast.Assign) and len(a.targets) == 1 and isinstance(a.targets[0], ast.Name) and isinstance(a.value, ast.Call)
            and ((dotted(a.value.func) or "").rsplit(".", 1)[-1] in ("empty_like", "zeros_like", "ones_like", "full_like") and a.value.args and norm_src(a.value.args[0]) == "points"
                 or any(k.arg == "dtype" and norm_src(k.value) == "points.dtype" for k in a.value.keywords))}
    for c_ in own_nodes(d):
        if isinstance(c_, ast.Call) and (dotted(c_.func) or "").rsplit(".", 1)[-1] in ("insert", "put", "place", "copyto") and c_.args and norm_src(c_.args[0]) in {"points"} | like \
                and any(isinstance(x, ast.Name) and x.id == "soma" for a_ in c_.args[1:] for x in ast.walk(a_)):
            n_cast += 1
            col.bad("R-SOMACAST", q, d.loc(c_), "the soma keeps its coordinates",
                    f"`{norm_src(c_)[:80]}` writes the soma into an array of the cloud's dtype: numpy casts the inserted values, so with an integer cloud (voxel indices) a soma at "
                    f"(601.5, 598.25, 600.75) becomes (601, 598, 600) -- the tree is not rooted at the given soma", stmt="soma-cast", definite=True)
        if isinstance(c_, ast.Assign) and any(isinstance(t_, ast.Subscript) and isinstance(t_.value, ast.Name) and t_.value.id in {"points"} | like for t_ in c_.targets) \
                and any(isinstance(x, ast.Name) and x.id == "soma" for x in ast.walk(c_.value)):
            n_cast += 1
            col.bad("R-SOMACAST", q, d.loc(c_), "the soma keeps its coordinates",
                    f"`{norm_src(c_)[:80]}` stores the soma into an array of the cloud's dtype (cast on assignment): an integer cloud truncates a fractional soma", stmt="soma-cast", definite=True)
    if not n_cast:
        col.ok("R-SOMACAST", q, d.loc(), "the soma keeps its coordinates", "no cast-on-write of the soma into the cloud's array", stmt="soma-cast")
    # limit table
    sat = [n for n in own_nodes(d) if isinstance(n, ast.If) and "self.furcations" in norm_src(n.test)]
    if len(sat) != 1:
        col.unresolved("R-LIMIT", q, d.loc(), "saturation test", "not found")
    else:
        def term(n):
            s = norm_src(n)
            return {f"furcations[{parent}]": "c", "self.furcations": "k", f"{parent} != 0": "notroot",
                    f"{parent} == 0": "isroot", "self.exclude_soma": "ex"}.get(s)
        e, hits = tables.substitute(sat[0].test, term)
        for name, (c, k) in (("count < limit", (1, 2)), ("count = limit", (2, 2)), ("count > limit", (3, 2)), ("no limit (-1)", (5, -1))):
            for isroot in (True, False):
                for ex in (True, False):
                    try:
                        got = bool(Folder(repo, d.module, None, {"c": c, "k": k, "notroot": not isroot, "isroot": isroot, "ex": ex}).eval(e))
                    except Unfoldable as x:
                        col.unresolved("R-LIMIT", q, d.loc(sat[0]), f"{name}, root={isroot}, exempt={ex}", str(x), stmt=f"{name}:{isroot}:{ex}")
                        continue
                    want = k != -1 and c >= k and not (ex and isroot)
                    col.check(got == want, "R-LIMIT", q, d.loc(sat[0]), f"{name}, root={isroot}, exempt={ex}", f"closed={got}",
                              f"closed={got}, expected {want}", stmt=f"{name}:{isroot}:{ex}")
    p = repo.get_def(f"{MST}.PointsToMST.__init__")
    sup = [n for n in own_nodes(p) if isinstance(n, ast.Call) and isinstance(n.func, ast.Attribute) and n.func.attr == "__init__"]
    bf = kwarg(sup[0], "bf") if sup else None
    col.check(bf is not None and const_int(bf) == 0, "R-CONST", p.qualname, p.loc(), "PointsToMST passes bf=0",
              norm_src(bf) if bf is not None else "", "bf is not the constant 0: PointsToMST would not build a minimum spanning tree",
              stmt="bf0", definite=isinstance(bf, ast.Constant) and isinstance(bf.value, (int, float)))

    # --- distances are taken from coordinate differences, not from squared norms of the positions
    col.rule("R-DIST", "edge lengths are computed from coordinate differences (translation invariant in floating point): no Gram-matrix expansion "
             "|a|^2 + |b|^2 - 2 a.b over the absolute positions, whose rounding error is of the order ulp(|a|^2) and swamps the edge lengths of a cloud that "
             "lies far from the origin relative to its point spacing (the greedy choice then runs on wrong distances)", floor=1)
    gram = None
    for n in own_nodes(d):
        if isinstance(n, ast.BinOp) and isinstance(n.op, ast.MatMult) and norm_src(n.left).split(".")[0] == "points" and norm_src(n.right).split(".")[0] == "points":
            gram = n
        if isinstance(n, ast.Call):
            fnm = (dotted(n.func) or "").rsplit(".", 1)[-1]
            argn = [norm_src(a).split(".")[0].split("[")[0] for a in n.args]
            if fnm in ("dot", "inner", "matmul", "tensordot", "einsum") and argn.count("points") >= 2:
                gram = n
            if fnm == "dot" and isinstance(n.func, ast.Attribute) and norm_src(n.func.value).split(".")[0] == "points" and argn[:1] == ["points"]:
                gram = n
    if gram is not None:
        col.bad("R-DIST", q, d.loc(gram), "pairwise distances come from coordinate differences",
                f"`{norm_src(gram)[:70]}` multiplies the absolute positions with themselves (Gram matrix): |a-b|^2 is then a small difference of large numbers; "
                f"for a float32 cloud a few thousand units from the origin with a spacing of ten the edge lengths are lost in the rounding of |a|^2, and the "
                f"tree that is built is not the minimum / balanced spanning tree of the points", stmt="gram", definite=True)
    else:
        col.ok("R-DIST", q, d.loc(), "pairwise distances come from coordinate differences", "no product of the positions with themselves", stmt="gram")

    # --- the soma position is not cast to the dtype of the cloud
    cast = None
    for n in own_nodes(d):
        if isinstance(n, ast.Call):
            dt = kwarg(n, "dtype")
            srcs = norm_src(n)
            if dt is not None and norm_src(dt) in ("points.dtype",) and any(isinstance(a, ast.Name) and a.id == "soma" for a in n.args):
                cast = n
            if isinstance(n.func, ast.Attribute) and n.func.attr == "astype" and norm_src(n.func.value) == "soma" and n.args and norm_src(n.args[0]) == "points.dtype":
                cast = n
    if cast is not None:
        col.bad("R-ACC", q, d.loc(cast), "the soma keeps its own (floating) position",
                f"`{norm_src(cast)[:70]}` casts the soma to the dtype of the cloud: for an integer cloud (voxel coordinates) a soma at a fractional position is truncated, "
                f"the tree is rooted at a point that is not the given soma and every edge length / path length from the root is measured from the wrong place", stmt="soma-cast", definite=True)
    else:
        col.ok("R-ACC", q, d.loc(), "the soma keeps its own (floating) position", "no cast of the soma to the cloud's dtype", stmt="soma-cast")

    # --- the constructor keeps the caller's options as given (table over the values the statement distinguishes)
    col.rule("R-KEEP", "the constructor stores the branching limit and the root exemption exactly as given: every positive limit k (1 = no branching, 2, 3, ...) "
             "and the 'no limit' value -1 reach the attachment loop unchanged (the stored expression is folded at k = 1, 2, 3, 7, -1 and at both flags)", floor=2, exhaustive=True)
    ini = repo.get_def(f"{MST}.PointsToCuntzMST.__init__")
    for prm, attr, wit in (("furcations", "furcations", (1, 2, 3, 7, -1)), ("exclude_soma", "exclude_soma", (True, False))):
        st = [n for n in own_nodes(ini) if isinstance(n, ast.Assign) and len(n.targets) == 1 and norm_src(n.targets[0]) == f"self.{attr}"]
        if len(st) != 1:
            col.unresolved("R-KEEP", ini.qualname, ini.loc(), f"`self.{attr}` is bound once in the constructor", f"{len(st)} bindings", stmt=f"keep:{attr}")
            continue
        # read through local temporaries bound once before the store
        env_defs = {}
        for n in own_nodes(ini):
            if isinstance(n, ast.Assign) and len(n.targets) == 1 and isinstance(n.targets[0], ast.Name):
                env_defs.setdefault(n.targets[0].id, []).append(n.value)
        bad = und = None
        for w in wit:
            try:
                env = {prm: w}
                for nm, vs in env_defs.items():
                    if nm != prm and len(vs) == 1:
                        try:
                            env[nm] = Folder(repo, ini.module, None, dict(env)).eval(vs[0])
                        except Unfoldable:
                            pass
                if prm in env_defs:  # the parameter itself is re-bound before the store: fold the re-binding first
                    if len(env_defs[prm]) != 1:
                        raise Unfoldable(st[0], "parameter re-bound more than once")
                    env[prm] = Folder(repo, ini.module, None, dict(env)).eval(env_defs[prm][0])
                got = Folder(repo, ini.module, None, env).eval(st[0].value)
            except Unfoldable as x:
                und = str(x)
                break
            if got != w or type(got) is not type(w):
                bad = (w, got)
                break
        if und is not None:
            col.unresolved("R-KEEP", ini.qualname, ini.loc(st[0]), f"`self.{attr}` is the `{prm}` the caller gave", f"cannot fold `{norm_src(st[0])}`: {und}", stmt=f"keep:{attr}")
        else:
            col.check(bad is None, "R-KEEP", ini.qualname, ini.loc(st[0]), f"`self.{attr}` is the `{prm}` the caller gave, for {wit}", norm_src(st[0]),
                      f"`{norm_src(st[0])}` turns {prm}={bad[0] if bad else ''} into {bad[1] if bad else ''}: the caller's "
                      + ("branching limit" if attr == "furcations" else "root exemption") + " is silently replaced", stmt=f"keep:{attr}", definite=True)
    from ..rules import smalllints2 as _s2
    _s2.run_sqdtype(ctx, col, ('swcgeom.transforms.mst',))
    from ..rules import ignoredparam
    ignoredparam.run(ctx, col, (MST,))

    # --- statements that carry the roles, matched three-way under one renaming
    col.text_group("R-ROLES", q, d, [
        ("pairwise Euclidean distances from coordinate differences", ["dis = np.linalg.norm(points.reshape((-1, 1, 3)) - points.reshape((1, -1, 3)), axis=2)"], "dist"),
        ("no parent yet", ["pid = np.full(n, fill_value=-1)"], "pid-init"),
        ("child counts start at 0", ["furcations = np.zeros(n, dtype=_any)"], "furc-init"),
        ("only point 0 is connected at the start", ["conn[0] = True"], "conn0"),
        ("n-1 attachments", ["for _ in range(n - 1): pass"], "n-1") if False else
        ("the arg-min pair (parent, child) of the cost matrix", ["(i, j) = np.unravel_index(cost.argmin(), cost.shape)"], "argmin"),
        ("the parent's child count grows", ["furcations[i] += 1"], "count"),
        ("the new point records the parent", ["pid[j] = i"], "pid"),
        *([] if acc_by_value is not None else [("its path length is the parent's plus the edge", ["acc[j] = acc[i] + dis[i, j]"], "acc")]),  # decided by value above when written otherwise
        ("it becomes connected", ["conn[j] = True"], "conn"),
        ("it can now act as parent of the unconnected points", ["mask[j, :] = conn"], "mask-row"),
        ("it can no longer be attached as a child", ["mask[:, j] = True"], "mask-col"),
        ("a saturated point is closed as parent", ["mask[i, :] = True"], "sat-row"),
        ("... and as child", ["mask[:, i] = True"], "sat-col"),
        ("a given soma is put first", ["points = np.concatenate([[soma], points])"], "soma-first"),
        ("ids are 0..n-1", ["names.id: np.arange(n)"], "ids") if False else
        ("the first point is typed as soma", ["dic[names.type][0] = self.types.soma"], "soma-type"),
    ], fixed=("points", "soma", "names", "n"))
    loops = [x for x in own_nodes(d) if isinstance(x, ast.For)]
    main = [x for x in loops if any(isinstance(y, ast.Call) and (dotted(y.func) or "").endswith("unravel_index") for y in ast.walk(x))]
    if len(main) == 1:
        col.text("R-ROLES", q, d.loc(main[0]), "exactly n-1 attachments", main[0].iter, ["range(n - 1)", "range(1, n)"], stmt="n-1")
    # PointsToMST forwards every option it accepts
    p = repo.get_def(f"{MST}.PointsToMST.__init__")
    sup = [x for x in own_nodes(p) if isinstance(x, ast.Call) and isinstance(x.func, ast.Attribute) and x.func.attr == "__init__"]
    if len(sup) == 1:
        used = {y.id for x in own_nodes(p) for y in ast.walk(x) if isinstance(y, ast.Name)} if False else {y.id for y in ast.walk(sup[0]) if isinstance(y, ast.Name)}
        for prm in p.params[1:]:
            if prm in ("k_furcations",):
                continue
            anywhere = any(isinstance(y, ast.Name) and y.id == prm and isinstance(y.ctx, ast.Load) for y in ast.walk(p.node))
            col.check(prm in used or (prm == "kwargs" and any(k.arg is None for k in sup[0].keywords)), "R-CONST", p.qualname, p.loc(sup[0]),
                      f"option `{prm}` is passed on to the balanced-tree constructor", "",
                      f"PointsToMST accepts `{prm}` but does not pass it to super().__init__(...): the option silently has no effect "
                      f"(the parent's default applies)", stmt=f"fwd:{prm}", definite=not anywhere or prm not in used)
