"""C19 -- population containers index correctly and load each file at most once, on demand."""

from __future__ import annotations

import ast

from ..fold import Folder, Unfoldable
from ..model import AnalysisError, dotted, norm_src, own_nodes
from ..rules import tables
from ..util import kwarg, names_in

POP = "swcgeom.core.population"
SINGLE_PASS_CALLS = {"map", "zip", "filter", "iter", "reversed", "enumerate"}


# ------------------------------------------------------------------ R-ITER
def _ln(n):
    return getattr(n, "lineno", None) or getattr(getattr(n, "iter", None), "lineno", 0)


def _at(n):
    return n if hasattr(n, "lineno") else n.iter


def consumptions(d, pname):
    """AST nodes that iterate parameter `pname` once each (in source order), and the
    statement index after which the name is rebound to a materialised copy (or None)."""
    out = []
    rebound_at = None
    for n in own_nodes(d):
        if isinstance(n, ast.Assign) and len(n.targets) == 1 and isinstance(n.targets[0], ast.Name) \
                and n.targets[0].id == pname:
            v = n.value
            inner = v.body if isinstance(v, ast.IfExp) else v
            if isinstance(inner, ast.Call) and dotted(inner.func) in ("list", "tuple", "sorted") \
                    and inner.args and norm_src(inner.args[0]) == pname:
                if rebound_at is None:
                    rebound_at = n.lineno
        if isinstance(n, (ast.For, ast.comprehension)) and isinstance(n.iter, ast.Name) and n.iter.id == pname:
            out.append(n)
        elif isinstance(n, ast.Call) and n.args and any(isinstance(a, ast.Name) and a.id == pname for a in n.args):
            f = dotted(n.func) or ""
            if f in ("list", "tuple", "sorted", "set", "min", "max", "sum", "enumerate", "zip", "map",
                     "filter", "reduce", "any", "all", "frozenset", "dict"):
                out.append(n)
    out.sort(key=lambda n: (_ln(n), getattr(_at(n), "col_offset", 0)))
    return out, rebound_at


def is_single_pass(e: ast.AST) -> bool:
    if isinstance(e, ast.GeneratorExp):
        return True
    if isinstance(e, ast.Call) and (dotted(e.func) or "") in SINGLE_PASS_CALLS:
        return True
    return False


def iter_rule(ctx, col):
    repo, cg, ty = ctx.repo, ctx.cg, ctx.typer
    m = repo.get_module(POP)
    n_params = 0
    for d in repo.defs.values():
        if d.module is not m or d.is_lambda or d.is_overload():
            continue
        for p in d.params:
            ann = d.param_annotation(p)
            if ann is None:
                continue
            a = norm_src(ann)
            if not (a.startswith(("Iterable[", "Iterator[", "Optional[Iterable[")) or a in ("Iterable", "Iterator")):
                continue
            n_params += 1
            cons, rebound = consumptions(d, p)
            # consumptions after a materialising rebind iterate the copy
            effective = [c for c in cons if rebound is None or _ln(c) <= rebound]
            what = f"{d.qualname.split('.', 3)[-1]}({p}: {a})"
            if len(effective) <= 1:
                col.ok("R-ITER", d.qualname, d.loc(), what,
                       f"iterated {len(effective)} time(s)" + (" (then only the materialised copy)" if rebound else ""),
                       stmt=f"{p}")
                continue
            # several passes: violation only if a single-pass iterable is passed on a strong call path
            offenders = []
            targets = [d]
            if d.name == "__init__" and d.cls is not None:
                targets = [d]
            for e in cg.callers(d):
                call = e.call
                if not isinstance(call, ast.Call):
                    continue
                pos = [x for x in d.params if not (d.cls is not None and x == d.params[0])]
                arg = None
                if p in pos and pos.index(p) < len(call.args):
                    arg = call.args[pos.index(p)]
                arg = kwarg(call, p) or arg
                if arg is not None and is_single_pass(arg):
                    offenders.append((e.caller, call, arg))
            sites = ", ".join(f"line {_ln(c)}" for c in effective)
            if offenders:
                caller, call, arg = offenders[0]
                col.bad("R-ITER", d.qualname, d.loc(_at(effective[1])), what,
                        f"`{p}` is iterated {len(effective)} times ({sites}) but {caller.qualname} passes the "
                        f"single-pass iterable `{norm_src(arg)[:60]}` ({caller.loc(call)}): the second pass sees "
                        f"nothing", stmt=f"{p}", facts={"consumptions": [norm_src(_at(c))[:60] for c in effective]})
            else:
                col.info("R-ITER", d.qualname, d.loc(_at(effective[1])), what,
                         f"LATENT: `{p}` is iterated {len(effective)} times ({sites}); every call site found "
                         f"passes a re-iterable (list) -- would lose data for a generator")
                col.ok("R-ITER", d.qualname, d.loc(), what,
                       f"iterated {len(effective)} times, but no call path passes a single-pass iterable (latent)",
                       stmt=f"{p}")
    col.analysed["iterable_parameters"] = n_params


# ------------------------------------------------------------------ R-CACHE / R-WHOCALLS
def cache_rule(ctx, col):
    repo, cg = ctx.repo, ctx.cg
    L = repo.get_class(f"{POP}.LazyLoadingTrees")
    load = L.lookup_method("load")
    if load is None:
        raise AnalysisError("anchor-vanished: LazyLoadingTrees.load")
    # every store to self.trees[...] in the class
    stores = []
    for name, d in L.methods.items():
        for n in own_nodes(d):
            if isinstance(n, ast.Assign):
                for t in n.targets:
                    if isinstance(t, ast.Subscript) and norm_src(t.value) == "self.trees":
                        stores.append((d, n, t))
    ok = len(stores) == 1 and stores[0][0] is load
    col.check(ok, "R-CACHE", L.qualname, load.loc(), "the cache slot is written only by the loader",
              f"{len(stores)} store(s)", f"self.trees[...] is stored in {[s[0].name for s in stores]}", stmt="single-writer")
    if stores and stores[0][0] is load:
        d, st, tgt = stores[0]
        key = norm_src(tgt.slice)
        guard = repo.parent(st)
        ok = isinstance(guard, ast.If) and norm_src(guard.test) == f"self.trees[{key}] is None" and not guard.orelse
        col.check(ok, "R-CACHE", L.qualname, load.loc(guard) if isinstance(guard, ast.If) else load.loc(st),
                  "the file is read only while the slot is still empty (same slot, same key)",
                  norm_src(guard.test) if isinstance(guard, ast.If) else "",
                  "the store is not guarded by `self.trees[key] is None`: a file can be read more than once", stmt="guard")
        v = st.value
        ok = isinstance(v, ast.Call) and norm_src(v.func) == "Tree.from_swc" and v.args and \
            norm_src(v.args[0]) == f"self.swcs[{key}]" and any(k.arg is None and norm_src(k.value) == "self.kwargs" for k in v.keywords)
        col.check(ok, "R-CACHE", L.qualname, load.loc(st), "slot k is filled from file k with the stored options",
                  norm_src(v)[:70], f"slot {key} is filled by `{norm_src(v)[:70]}`", stmt="fill")
    gi = L.lookup_method("__getitem__")
    body = [norm_src(s) for s in gi.node.body]
    ok = body == ["idx = _get_idx(key, len(self))", "self.load(idx)", "return cast(Tree, self.trees[idx])"]
    col.check(ok, "R-CACHE", L.qualname, gi.loc(), "indexing normalises the key, loads that slot, returns that slot",
              "; ".join(body), f"__getitem__ body is {body}", stmt="getitem")
    init = L.lookup_method("__init__")
    src = {norm_src(n.targets[0]): norm_src(n.value) for n in own_nodes(init) if isinstance(n, ast.Assign)}
    ok = src.get("self.trees") in ("[None for _ in swcs]", "[None for _ in self.swcs]", "[None] * len(self.swcs)") \
        and src.get("self.swcs") == "list(swcs)"
    col.check(ok, "R-CACHE", L.qualname, init.loc(), "construction creates one empty slot per file and reads nothing",
              str(src.get("self.trees")), f"slots initialised by `{src.get('self.trees')}`", stmt="init")
    ln = L.lookup_method("__len__")
    col.check(norm_src(ln.node.body[-1]) == "return len(self.swcs)", "R-CACHE", L.qualname, ln.loc(),
              "length is the number of files (no file is read)", "", "len() is not len(self.swcs)", stmt="len")

    # who may read files
    m = repo.get_module(POP)
    readers = [repo.get_def("swcgeom.core.tree.Tree.from_swc"), repo.get_def("swcgeom.core.swc_utils.io.read_swc"),
               repo.get_def("swcgeom.core.tree.Tree.from_eswc")]
    callers = set()
    for r in readers:
        for e in cg.inc.get(r, []):
            if e.caller.module is m and e.strength in ("strong", "weak"):
                callers.add(e.caller.qualname)
    col.check(callers == {load.qualname}, "R-WHOCALLS", f"{POP}", load.loc(), "within the population module only the loader reads files",
              str(sorted(callers)), f"file readers are called from {sorted(callers)}", stmt="readers")
    # who may call the loader
    lc = {e.caller.qualname: e for e in cg.inc.get(load, [])
          if e.strength == "strong" or (e.strength == "weak" and e.caller.module is m)}
    allowed = {gi.qualname, f"{POP}.Population.__init__"}
    col.check(set(lc) <= allowed and gi.qualname in lc, "R-WHOCALLS", L.qualname, load.loc(),
              "the loader is reached only from indexing and from the explicit eager arm of Population", str(sorted(lc)),
              f"load() is called from {sorted(set(lc) - allowed)}", stmt="loader-callers")
    # Population.__init__: probe of element 0 only; eager loop only under `not lazy_loading`
    pi = repo.get_def(f"{POP}.Population.__init__")
    subs = [n for n in own_nodes(pi) if isinstance(n, ast.Subscript) and norm_src(n.value) == "swcs"]
    ok = all(isinstance(s.slice, ast.Constant) and s.slice.value == 0 for s in subs)
    col.shape(ok, "R-WHOCALLS", pi.qualname, pi.loc(), "construction looks at most at element 0 of its argument (the documented probe)",
              f"{len(subs)} subscript(s)", "construction indexes its argument beyond element 0: trees are loaded eagerly", stmt="probe")
    loads = [n for n in own_nodes(pi) if isinstance(n, ast.Call) and isinstance(n.func, ast.Attribute) and n.func.attr == "load"]
    ok = True
    for c in loads:
        anc = []
        x = repo.parent(c)
        while x is not None and x is not pi.node:
            anc.append(x)
            x = repo.parent(x)
        ok = ok and any(isinstance(a, ast.If) and norm_src(a.test) == "not lazy_loading" for a in anc)
    loops = [n for n in own_nodes(pi) if isinstance(n, (ast.For, ast.comprehension)) and "swcs" in names_in(n.iter)
             and not (isinstance(n.iter, ast.Call) and norm_src(n.iter) == "range(len(swcs))")]
    col.shape(ok and not loops, "R-WHOCALLS", pi.qualname, pi.loc(), "eager loading happens only in the `not lazy_loading` arm; the argument is never iterated",
              "", "construction loads or iterates the trees outside the explicit eager arm", stmt="eager-arm")
    fs = repo.get_def(f"{POP}.Population.from_swc")
    rets = [n for n in own_nodes(fs) if isinstance(n, ast.Return)]
    ok = len(rets) == 1 and norm_src(rets[0].value) == "cls(LazyLoadingTrees(swcs, **kwargs), root=root)"
    col.shape(ok, "R-WHOCALLS", fs.qualname, fs.loc(), "a directory population is a lazily loading one over the files found",
              "", "from_swc does not wrap the file list in LazyLoadingTrees", stmt="from_swc")


# ------------------------------------------------------------------ R-CHAIN
def chain_rule(ctx, col):
    repo = ctx.repo
    C = repo.get_class(f"{POP}.ChainTrees")
    gi = C.lookup_method("__getitem__")
    wh = [n for n in own_nodes(gi) if isinstance(n, ast.While)]
    if len(wh) != 1:
        raise AnalysisError("anchor-vanished: the binary search loop of ChainTrees.__getitem__")
    w = wh[0]
    init = [n for n in gi.node.body if isinstance(n, ast.Assign) and isinstance(n.targets[0], ast.Tuple)]
    lo, hi = [e.id for e in init[0].targets[0].elts] if init else (None, None)
    ok = init and norm_src(init[0].value) == "(1, len(self.trees))" and norm_src(w.test) == f"{lo} < {hi}"
    col.check(bool(ok), "R-CHAIN", gi.qualname, gi.loc(init[0]) if init else gi.loc(), "search range is members 1..n over the prefix sums (cumsum[0] = 0)",
              norm_src(init[0]) if init else "", "initial range is not (1, len(self.trees)) with `lo < hi`", stmt="range")
    mid = [s for s in w.body if isinstance(s, ast.Assign) and norm_src(s.targets[0]) == "mid"]
    ok = len(mid) == 1 and norm_src(mid[0].value) == f"({lo} + {hi}) // 2"
    col.check(ok, "R-CHAIN", gi.qualname, gi.loc(mid[0]) if mid else gi.loc(w), "midpoint is (lo + hi) // 2", "", "midpoint differs", stmt="mid")
    ifs = [s for s in w.body if isinstance(s, ast.If)]
    if len(ifs) != 1:
        col.unresolved("R-CHAIN", gi.qualname, gi.loc(w), "search step", "no single if/else step")
    else:
        step = ifs[0]

        def term(n):
            s = norm_src(n)
            return {"self.cumsum[mid]": "c", "idx": "x"}.get(s)
        e, hits = tables.substitute(step.test, term)
        for name, (c, x) in (("cumsum[mid] < idx", (0, 1)), ("cumsum[mid] = idx", (1, 1)), ("cumsum[mid] > idx", (1, 0))):
            try:
                val = bool(Folder(repo, gi.module, None, {"c": c, "x": x}).eval(e))
            except Unfoldable as ex:
                col.unresolved("R-CHAIN", gi.qualname, gi.loc(step), name, str(ex), stmt=name)
                continue
            br = [norm_src(s) for s in (step.body if val else step.orelse)]
            want = [f"{lo} = mid + 1"] if name != "cumsum[mid] > idx" else [f"{hi} = mid"]
            col.check(br == want, "R-CHAIN", gi.qualname, gi.loc(step), name, f"-> {br}",
                      f"-> {br}, expected {want} (an index equal to a prefix sum belongs to the next member)", stmt=name)
    rets = [n for n in own_nodes(gi) if isinstance(n, ast.Return)]
    ok = len(rets) == 1 and norm_src(rets[0].value) == f"self.trees[{lo} - 1][idx - self.cumsum[{lo} - 1]]"
    col.check(ok, "R-CHAIN", gi.qualname, gi.loc(rets[0]) if rets else gi.loc(), "result: member lo-1 at offset idx - cumsum[lo-1]",
              norm_src(rets[0].value) if rets else "", "member / offset expression differs", stmt="result")
    idx = [n for n in gi.node.body if isinstance(n, ast.Assign) and norm_src(n.targets[0]) == "idx"]
    ok = len(idx) == 1 and norm_src(idx[0].value) == "_get_idx(key, len(self))"
    col.check(ok, "R-CHAIN", gi.qualname, gi.loc(), "the key is normalised against the total length", "", "idx is not _get_idx(key, len(self))", stmt="norm")
    init_d = C.lookup_method("__init__")
    src = {norm_src(n.targets[0]): norm_src(n.value) for n in own_nodes(init_d) if isinstance(n, ast.Assign)}
    ok = src.get("self.trees") == "list(trees)" and src.get("self.cumsum") in (
        "np.cumsum([0] + [len(ts) for ts in self.trees])", "np.cumsum([0] + [len(ts) for ts in trees])")
    col.check(ok, "R-CHAIN", C.qualname, init_d.loc(), "prefix sums start at 0 and add the members' lengths in order", str(src.get("self.cumsum")),
              f"cumsum is `{src.get('self.cumsum')}`", stmt="cumsum")
    ln = C.lookup_method("__len__")
    col.check(norm_src(ln.node.body[-1]) == "return self.cumsum[-1].item()", "R-CHAIN", C.qualname, ln.loc(), "total length is the last prefix sum",
              "", "len() is not cumsum[-1]", stmt="len")
    tp = repo.get_def(f"{POP}.Populations.to_population")
    rets = [n for n in own_nodes(tp) if isinstance(n, ast.Return)]
    ok = len(rets) == 1 and norm_src(rets[0].value) in ("Population(ChainTrees((p.trees for p in self.populations)))",
                                                        "Population(ChainTrees([p.trees for p in self.populations]))")
    col.check(ok, "R-CHAIN", tp.qualname, tp.loc(), "chaining takes the members' tree containers in order", "", "to_population differs", stmt="chain")


# ------------------------------------------------------------------ R-ROWS / map
def rows_rule(ctx, col):
    repo = ctx.repo
    fs = repo.get_def(f"{POP}.Populations.from_swc")
    src = norm_src(fs.node)
    ok = "fs = [Population.find_swcs(d, ext=ext, relpath=True) for d in roots]" in src
    col.check(ok, "R-ROWS", fs.qualname, fs.loc(), "files are listed relative to each root", "", "find_swcs(..., relpath=True) per root missing", stmt="relpath")
    ok = "inter = list(reduce(lambda a, b: set(a).intersection(set(b)), fs))" in src and "fs = [inter for _ in roots]" in src
    col.check(ok, "R-ROWS", fs.qualname, fs.loc(), "with intersect, every root gets the *same* list object of common relative paths (same order in every row)",
              "", "the common file list is not shared as one list across roots", stmt="shared-list")
    ok = "LazyLoadingTrees([os.path.join(d, p) for p in fs[i]], **kwargs), root=d" in src and "for i, d in enumerate(roots)" in src
    col.check(ok, "R-ROWS", fs.qualname, fs.loc(), "population i joins root i with file list i, lazily", "", "population construction differs", stmt="per-root")
    g = repo.get_def(f"{POP}.Populations.__getitem__")
    col.check(norm_src(g.node.body[-1]) == "return [p[key] for p in self.populations]", "R-ROWS", g.qualname, g.loc(),
              "row i = tree i of every population, in population order", "", "row is not [p[key] for p in populations]", stmt="row")
    mp = repo.get_def(f"{POP}.Population.map")
    calls = [n for n in own_nodes(mp) if isinstance(n, ast.Call)]
    unordered = [c for c in calls if (dotted(c.func) or "").split(".")[-1] in ("as_completed", "imap_unordered", "submit")]
    ordered = [c for c in calls if norm_src(c.func) in ("p.map", "process_map") and c.args and norm_src(c.args[0]) == "fn"
               and norm_src(c.args[1]) == "trees"]
    col.check(not unordered and len(ordered) == 2, "R-ROWS", mp.qualname, mp.loc(), "map uses the order-preserving executor API on (fn, trees) in both arms",
              f"{len(ordered)} ordered call(s)", f"unordered API {[norm_src(c.func) for c in unordered]} / ordered calls {len(ordered)}", stmt="map")
    tr = [n for n in own_nodes(mp) if isinstance(n, ast.Assign) and norm_src(n.targets[0]) == "trees"]
    ok = len(tr) == 1 and norm_src(tr[0].value) == "(t for t in self.trees)" and norm_src(mp.node.body[-1]) == "return results"
    col.check(ok, "R-ROWS", mp.qualname, mp.loc(), "all trees, in order, are mapped and the results returned", "", "map does not iterate self.trees / return results", stmt="map-all")
    ni = repo.get_def(f"{POP}.NestTrees.__getitem__")
    col.check(norm_src(ni.node.body[-1]) == "return self.trees[self.idx[key]]", "R-ROWS", ni.qualname, ni.loc(),
              "a slice/filter view indexes through its index list", "", "NestTrees.__getitem__ differs", stmt="nest")


def run(ctx, col, tier):
    col.rule("R-ITER", "a parameter annotated Iterable/Iterator is consumed at most once unless first "
             "rebound to a materialised copy; several passes are a violation when a strong call site "
             "passes a generator / map / zip / filter object (otherwise reported as latent)", floor=8)
    col.rule("R-CACHE", "load-once typestate of the per-file slot: single writer, guarded by "
             "`slot is None` with the same key, filled from the same-numbered file; indexing goes "
             "normalise -> load -> read; construction reads nothing", floor=6, shape=True)
    col.rule("R-WHOCALLS", "only the loader calls the file readers in this module; the loader is "
             "reached only from indexing and from the explicit eager arm; construction probes at most "
             "element 0", floor=5)
    col.rule("R-CHAIN", "chain indexing: bisect-right decision table over cumsum[mid] ? idx, member "
             "lo-1 at offset idx - cumsum[lo-1], prefix sums from 0 in member order", floor=9, exhaustive=True, shape=True)
    col.rule("R-ROWS", "multi-directory rows share one list of common relative paths; rows and map "
             "preserve order (no unordered executor API)", floor=7, shape=True)
    col.not_decided += ["directory walking (os.walk order)", "what process pools do with exceptions"]
    col.assumptions += ["Executor.map and tqdm's process_map return results in input order (documented)"]
    col.guard(iter_rule, ctx, col)
    col.guard(cache_rule, ctx, col)
    col.guard(chain_rule, ctx, col)
    col.guard(rows_rule, ctx, col)
