"""C19 -- population containers index correctly and load each file at most once, on demand."""

from __future__ import annotations

import ast

from ..fold import Folder, Unfoldable
from ..model import AnalysisError, dotted, norm_src, own_nodes
from ..rules import tables
from ..util import kwarg, names_in

POP = "swcgeom.core.population"
SINGLE_PASS_CALLS = {"map", "zip", "filter", "iter", "reversed", "enumerate"}


# ------------------------------------------------------------------ R-ITER
def _ln(n):
    return getattr(n, "lineno", None) or getattr(getattr(n, "iter", None), "lineno", 0)


def _at(n):
    return n if hasattr(n, "lineno") else n.iter


def consumptions(d, pname):
    """AST nodes that iterate parameter `pname` once each (in source order), and the
    statement index after which the name is rebound to a materialised copy (or None)."""
    out = []
    rebound_at = None
    for n in own_nodes(d):
        if isinstance(n, ast.Assign) and len(n.targets) == 1 and isinstance(n.targets[0], ast.Name) \
                and n.targets[0].id == pname:
            v = n.value
            inner = v.body if isinstance(v, ast.IfExp) else v
            if isinstance(inner, ast.Call) and dotted(inner.func) in ("list", "tuple", "sorted") \
                    and inner.args and norm_src(inner.args[0]) == pname:
                if rebound_at is None:
                    rebound_at = n.lineno
        if isinstance(n, (ast.For, ast.comprehension)) and isinstance(n.iter, ast.Name) and n.iter.id == pname:
            out.append(n)
        elif isinstance(n, ast.Call) and n.args and any(isinstance(a, ast.Name) and a.id == pname for a in n.args):
            f = dotted(n.func) or ""
            if f in ("list", "tuple", "sorted", "set", "min", "max", "sum", "enumerate", "zip", "map",
                     "filter", "reduce", "any", "all", "frozenset", "dict"):
                out.append(n)
    out.sort(key=lambda n: (_ln(n), getattr(_at(n), "col_offset", 0)))
    return out, rebound_at


def is_single_pass(e: ast.AST) -> bool:
    if isinstance(e, ast.GeneratorExp):
        return True
    if isinstance(e, ast.Call) and (dotted(e.func) or "") in SINGLE_PASS_CALLS:
        return True
    return False


def iter_rule(ctx, col):
    repo, cg, ty = ctx.repo, ctx.cg, ctx.typer
    m = repo.get_module(POP)
    n_params = 0
    for d in repo.defs.values():
        if d.module is not m or d.is_lambda or d.is_overload():
            continue
        for p in d.params:
            ann = d.param_annotation(p)
            if ann is None:
                continue
            a = norm_src(ann)
            if not (a.startswith(("Iterable[", "Iterator[", "Optional[Iterable[")) or a in ("Iterable", "Iterator")):
                continue
            n_params += 1
            cons, rebound = consumptions(d, p)
            # consumptions after a materialising rebind iterate the copy
            effective = [c for c in cons if rebound is None or _ln(c) <= rebound]
            what = f"{d.qualname.split('.', 3)[-1]}({p}: {a})"
            if len(effective) <= 1:
                col.ok("R-ITER", d.qualname, d.loc(), what,
                       f"iterated {len(effective)} time(s)" + (" (then only the materialised copy)" if rebound else ""),
                       stmt=f"{p}")
                continue
            # several passes: violation only if a single-pass iterable is passed on a strong call path
            offenders = []
            targets = [d]
            if d.name == "__init__" and d.cls is not None:
                targets = [d]
            for e in cg.callers(d):
                call = e.call
                if not isinstance(call, ast.Call):
                    continue
                pos = [x for x in d.params if not (d.cls is not None and x == d.params[0])]
                arg = None
                if p in pos and pos.index(p) < len(call.args):
                    arg = call.args[pos.index(p)]
                arg = kwarg(call, p) or arg
                if arg is not None and is_single_pass(arg):
                    offenders.append((e.caller, call, arg))
            sites = ", ".join(f"line {_ln(c)}" for c in effective)
            if offenders:
                caller, call, arg = offenders[0]
                col.bad("R-ITER", d.qualname, d.loc(_at(effective[1])), what,
                        f"`{p}` is iterated {len(effective)} times ({sites}) but {caller.qualname} passes the "
                        f"single-pass iterable `{norm_src(arg)[:60]}` ({caller.loc(call)}): the second pass sees "
                        f"nothing", stmt=f"{p}", facts={"consumptions": [norm_src(_at(c))[:60] for c in effective]})
            else:
                col.info("R-ITER", d.qualname, d.loc(_at(effective[1])), what,
                         f"LATENT: `{p}` is iterated {len(effective)} times ({sites}); every call site found "
                         f"passes a re-iterable (list) -- would lose data for a generator")
                col.ok("R-ITER", d.qualname, d.loc(), what,
                       f"iterated {len(effective)} times, but no call path passes a single-pass iterable (latent)",
                       stmt=f"{p}")
    col.analysed["iterable_parameters"] = n_params


# ------------------------------------------------------------------ R-CACHE / R-WHOCALLS
def cache_rule(ctx, col):
    repo, cg = ctx.repo, ctx.cg
    L = repo.get_class(f"{POP}.LazyLoadingTrees")
    load = L.lookup_method("load")
    if load is None:
        raise AnalysisError("anchor-vanished: LazyLoadingTrees.load")
    # every store to self.trees[...] in the class
    stores = []
    for name, d in L.methods.items():
        for n in own_nodes(d):
            if isinstance(n, ast.Assign):
                for t in n.targets:
                    if isinstance(t, ast.Subscript) and norm_src(t.value) == "self.trees":
                        stores.append((d, n, t))
    ok = len(stores) == 1 and stores[0][0] is load
    col.check(ok, "R-CACHE", L.qualname, load.loc(), "the cache slot is written only by the loader",
              f"{len(stores)} store(s)", f"self.trees[...] is stored in {[s[0].name for s in stores]}", stmt="single-writer")
    if stores and stores[0][0] is load:
        d, st, tgt = stores[0]
        key = norm_src(tgt.slice)
        guard = repo.parent(st)
        ok = isinstance(guard, ast.If) and norm_src(guard.test) == f"self.trees[{key}] is None" and not guard.orelse
        col.check(ok, "R-CACHE", L.qualname, load.loc(guard) if isinstance(guard, ast.If) else load.loc(st),
                  "the file is read only while the slot is still empty (same slot, same key)",
                  norm_src(guard.test) if isinstance(guard, ast.If) else "",
                  "the store is not guarded by `self.trees[key] is None`: a file can be read more than once", stmt="guard")
        v = st.value
        ok = isinstance(v, ast.Call) and norm_src(v.func) == "Tree.from_swc" and v.args and \
            norm_src(v.args[0]) == f"self.swcs[{key}]" and any(k.arg is None and norm_src(k.value) == "self.kwargs" for k in v.keywords)
        col.check(ok, "R-CACHE", L.qualname, load.loc(st), "slot k is filled from file k with the stored options",
                  norm_src(v)[:70], f"slot {key} is filled by `{norm_src(v)[:70]}`", stmt="fill")
    gi = L.lookup_method("__getitem__")
    body = [norm_src(s) for s in gi.node.body]
    ok = body == ["idx = _get_idx(key, len(self))", "self.load(idx)", "return cast(Tree, self.trees[idx])"]
    col.check(ok, "R-CACHE", L.qualname, gi.loc(), "indexing normalises the key, loads that slot, returns that slot",
              "; ".join(body), f"__getitem__ body is {body}", stmt="getitem")
    init = L.lookup_method("__init__")
    src = {norm_src(n.targets[0]): norm_src(n.value) for n in own_nodes(init) if isinstance(n, ast.Assign)}
    ok = src.get("self.trees") in ("[None for _ in swcs]", "[None for _ in self.swcs]", "[None] * len(self.swcs)") \
        and src.get("self.swcs") == "list(swcs)"
    col.check(ok, "R-CACHE", L.qualname, init.loc(), "construction creates one empty slot per file and reads nothing",
              str(src.get("self.trees")), f"slots initialised by `{src.get('self.trees')}`", stmt="init")
    ln = L.lookup_method("__len__")
    col.check(norm_src(ln.node.body[-1]) == "return len(self.swcs)", "R-CACHE", L.qualname, ln.loc(),
              "length is the number of files (no file is read)", "", "len() is not len(self.swcs)", stmt="len")

    # who may read files
    m = repo.get_module(POP)
    readers = [repo.get_def("swcgeom.core.tree.Tree.from_swc"), repo.get_def("swcgeom.core.swc_utils.io.read_swc"),
               repo.get_def("swcgeom.core.tree.Tree.from_eswc")]
    callers = set()
    for r in readers:
        for e in cg.inc.get(r, []):
            if e.caller.module is m and e.strength in ("strong", "weak"):
                callers.add(e.caller.qualname)
    col.check(callers == {load.qualname}, "R-WHOCALLS", f"{POP}", load.loc(), "within the population module only the loader reads files",
              str(sorted(callers)), f"file readers are called from {sorted(callers)}", stmt="readers")
    # who may call the loader
    lc = {e.caller.qualname: e for e in cg.inc.get(load, [])
          if e.strength == "strong" or (e.strength == "weak" and e.caller.module is m)}
    allowed = {gi.qualname, f"{POP}.Population.__init__"}
    col.check(set(lc) <= allowed and gi.qualname in lc, "R-WHOCALLS", L.qualname, load.loc(),
              "the loader is reached only from indexing and from the explicit eager arm of Population", str(sorted(lc)),
              f"load() is called from {sorted(set(lc) - allowed)}", stmt="loader-callers")
    # Population.__init__: probe of element 0 only; eager loop only under `not lazy_loading`
    pi = repo.get_def(f"{POP}.Population.__init__")
    subs = [n for n in own_nodes(pi) if isinstance(n, ast.Subscript) and norm_src(n.value) == "swcs"]
    ok = all(isinstance(s.slice, ast.Constant) and s.slice.value == 0 for s in subs)
    col.shape(ok, "R-WHOCALLS", pi.qualname, pi.loc(), "construction looks at most at element 0 of its argument (the documented probe)",
              f"{len(subs)} subscript(s)", "construction indexes its argument beyond element 0: trees are loaded eagerly", stmt="probe")
    loads = [n for n in own_nodes(pi) if isinstance(n, ast.Call) and isinstance(n.func, ast.Attribute) and n.func.attr == "load"]
    ok = True
    for c in loads:
        anc = []
        x = repo.parent(c)
        while x is not None and x is not pi.node:
            anc.append(x)
            x = repo.parent(x)
        ok = ok and any(isinstance(a, ast.If) and norm_src(a.test) == "not lazy_loading" for a in anc)
    loops = [n for n in own_nodes(pi) if isinstance(n, (ast.For, ast.comprehension)) and "swcs" in names_in(n.iter)
             and not (isinstance(n.iter, ast.Call) and norm_src(n.iter) == "range(len(swcs))")]
    col.shape(ok and not loops, "R-WHOCALLS", pi.qualname, pi.loc(), "eager loading happens only in the `not lazy_loading` arm; the argument is never iterated",
              "", "construction loads or iterates the trees outside the explicit eager arm", stmt="eager-arm")
    fs = repo.get_def(f"{POP}.Population.from_swc")
    rets = [n for n in own_nodes(fs) if isinstance(n, ast.Return)]
    ok = len(rets) == 1 and norm_src(rets[0].value) == "cls(LazyLoadingTrees(swcs, **kwargs), root=root)"
    col.shape(ok, "R-WHOCALLS", fs.qualname, fs.loc(), "a directory population is a lazily loading one over the files found",
              "", "from_swc does not wrap the file list in LazyLoadingTrees", stmt="from_swc")


# ------------------------------------------------------------------ R-CHAIN
def chain_rule(ctx, col):
    repo = ctx.repo
    C = repo.get_class(f"{POP}.ChainTrees")
    gi = C.lookup_method("__getitem__")
    wh = [n for n in own_nodes(gi) if isinstance(n, ast.While)]
    if len(wh) != 1:
        raise AnalysisError("anchor-vanished: the binary search loop of ChainTrees.__getitem__")
    w = wh[0]
    init = [n for n in gi.node.body if isinstance(n, ast.Assign) and isinstance(n.targets[0], ast.Tuple)]
    lo, hi = [e.id for e in init[0].targets[0].elts] if init else (None, None)
    ok = init and norm_src(init[0].value) == "(1, len(self.trees))" and norm_src(w.test) == f"{lo} < {hi}"
    col.check(bool(ok), "R-CHAIN", gi.qualname, gi.loc(init[0]) if init else gi.loc(), "search range is members 1..n over the prefix sums (cumsum[0] = 0)",
              norm_src(init[0]) if init else "", "initial range is not (1, len(self.trees)) with `lo < hi`", stmt="range")
    mid = [s for s in w.body if isinstance(s, ast.Assign) and norm_src(s.targets[0]) == "mid"]
    ok = len(mid) == 1 and norm_src(mid[0].value) == f"({lo} + {hi}) // 2"
    col.check(ok, "R-CHAIN", gi.qualname, gi.loc(mid[0]) if mid else gi.loc(w), "midpoint is (lo + hi) // 2", "", "midpoint differs", stmt="mid")
    ifs = [s for s in w.body if isinstance(s, ast.If)]
    if len(ifs) != 1:
        col.unresolved("R-CHAIN", gi.qualname, gi.loc(w), "search step", "no single if/else step")
    else:
        step = ifs[0]

        def term(n):
            s = norm_src(n)
            return {"self.cumsum[mid]": "c", "idx": "x"}.get(s)
        e, hits = tables.substitute(step.test, term)
        for name, (c, x) in (("cumsum[mid] < idx", (0, 1)), ("cumsum[mid] = idx", (1, 1)), ("cumsum[mid] > idx", (1, 0))):
            try:
                val = bool(Folder(repo, gi.module, None, {"c": c, "x": x}).eval(e))
            except Unfoldable as ex:
                col.unresolved("R-CHAIN", gi.qualname, gi.loc(step), name, str(ex), stmt=name)
                continue
            br = [norm_src(s) for s in (step.body if val else step.orelse)]
            want = [f"{lo} = mid + 1"] if name != "cumsum[mid] > idx" else [f"{hi} = mid"]
            col.check(br == want, "R-CHAIN", gi.qualname, gi.loc(step), name, f"-> {br}",
                      f"-> {br}, expected {want} (an index equal to a prefix sum belongs to the next member)", stmt=name)
    rets = [n for n in own_nodes(gi) if isinstance(n, ast.Return)]
    ok = len(rets) == 1 and norm_src(rets[0].value) == f"self.trees[{lo} - 1][idx - self.cumsum[{lo} - 1]]"
    col.check(ok, "R-CHAIN", gi.qualname, gi.loc(rets[0]) if rets else gi.loc(), "result: member lo-1 at offset idx - cumsum[lo-1]",
              norm_src(rets[0].value) if rets else "", "member / offset expression differs", stmt="result")
    idx = [n for n in gi.node.body if isinstance(n, ast.Assign) and norm_src(n.targets[0]) == "idx"]
    ok = len(idx) == 1 and norm_src(idx[0].value) == "_get_idx(key, len(self))"
    col.check(ok, "R-CHAIN", gi.qualname, gi.loc(), "the key is normalised against the total length", "", "idx is not _get_idx(key, len(self))", stmt="norm")
    init_d = C.lookup_method("__init__")
    src = {norm_src(n.targets[0]): norm_src(n.value) for n in own_nodes(init_d) if isinstance(n, ast.Assign)}
    ok = src.get("self.trees") == "list(trees)" and src.get("self.cumsum") in (
        "np.cumsum([0] + [len(ts) for ts in self.trees])", "np.cumsum([0] + [len(ts) for ts in trees])")
    col.check(ok, "R-CHAIN", C.qualname, init_d.loc(), "prefix sums start at 0 and add the members' lengths in order", str(src.get("self.cumsum")),
              f"cumsum is `{src.get('self.cumsum')}`", stmt="cumsum")
    # the prefix sums and the member list describe the same sequence: the lengths are taken from the very list that is kept in self.trees
    col.rule("R-CHAINSRC", "the prefix sums are computed from the list that is stored as the members: the comprehension under np.cumsum iterates over self.trees (or the name self.trees is bound to), "
             "not over another list (a member list that was flattened / filtered separately has other lengths at the same positions)", floor=1)
    cs = [n for n in own_nodes(init_d) if isinstance(n, ast.Assign) and norm_src(n.targets[0]) == "self.cumsum"]
    tr = [n for n in own_nodes(init_d) if isinstance(n, ast.Assign) and norm_src(n.targets[0]) == "self.trees"]
    it = None
    if len(cs) == 1:
        for g_ in ast.walk(cs[0].value):
            if isinstance(g_, ast.comprehension):
                it = g_.iter
    if it is None or len(tr) != 1:
        col.unresolved("R-CHAINSRC", C.qualname, init_d.loc(), "lengths are those of the stored members", "no single self.cumsum / self.trees assignment with a comprehension", stmt="chainsrc")
    else:
        tv = tr[0].value
        same = norm_src(it) == "self.trees" or (isinstance(it, ast.Name) and (norm_src(tv) in (it.id, f"list({it.id})", f"tuple({it.id})")))
        grown = [c_ for c_ in own_nodes(init_d) if isinstance(c_, ast.Call) and isinstance(c_.func, ast.Attribute) and c_.func.attr in ("append", "extend", "insert") and norm_src(c_.func.value) == "self.trees"]
        if same and not (isinstance(it, ast.Name) and grown):
            col.ok("R-CHAINSRC", C.qualname, init_d.loc(cs[0]), "lengths are those of the stored members", f"cumsum over `{norm_src(it)}`, members `{norm_src(tv)}`", stmt="chainsrc")
        elif isinstance(it, ast.Name) and isinstance(tv, (ast.List, ast.Call)) and grown and norm_src(tv) in ("[]", "list()"):
            col.bad("R-CHAINSRC", C.qualname, init_d.loc(cs[0]), "lengths are those of the stored members",
                    f"self.trees is built separately (`{norm_src(grown[0])[:60]}`) while the prefix sums run over `{it.id}`: as soon as the two lists differ (a nested chain that is flattened, a member "
                    f"that is skipped) position k of the sums no longer belongs to member k -- lookups land in the wrong member or raise", stmt="chainsrc", definite=True)
        else:
            col.unresolved("R-CHAINSRC", C.qualname, init_d.loc(cs[0]), "lengths are those of the stored members", f"cumsum over `{norm_src(it)}`, members `{norm_src(tv)}`: relation not recognised", stmt="chainsrc")
    ln = C.lookup_method("__len__")
    col.check(norm_src(ln.node.body[-1]) == "return self.cumsum[-1].item()", "R-CHAIN", C.qualname, ln.loc(), "total length is the last prefix sum",
              "", "len() is not cumsum[-1]", stmt="len")
    tp = repo.get_def(f"{POP}.Populations.to_population")
    rets = [n for n in own_nodes(tp) if isinstance(n, ast.Return)]
    ok = len(rets) == 1 and norm_src(rets[0].value) in ("Population(ChainTrees((p.trees for p in self.populations)))",
                                                        "Population(ChainTrees([p.trees for p in self.populations]))")
    col.check(ok, "R-CHAIN", tp.qualname, tp.loc(), "chaining takes the members' tree containers in order", "", "to_population differs", stmt="chain")


def chain_by_value(ctx, col):
    """R-CHAINVAL: ChainTrees.__getitem__ folded exactly for every layout of member sizes 0..2 (up to four members, empty members anywhere) and every valid index: the
    element returned is the one at that position of the concatenation.  Independent of how the member is searched (loop, bisect, searchsorted)."""
    import copy
    from fractions import Fraction as Fr
    from itertools import product
    from ..vecfold import VecEval, Unsupported as Uns, OutOfRange as OutR, RaiseReached as RaiseR
    repo = ctx.repo
    col.rule("R-CHAINVAL", "ChainTrees.__getitem__ folded exactly for every layout of member sizes 0..2 with up to four members (empty members at the start, in the middle, at the end, "
             "several in a row) and every index, negative ones included: the element returned is the one at that position of the concatenation", floor=1, exhaustive=True)
    C = repo.get_class(f"{POP}.ChainTrees")
    gi = C.lookup_method("__getitem__")
    gidx = repo.get_def(f"{POP}._get_idx")
    body = copy.deepcopy(gi.node.body)

    class LenSelf(ast.NodeTransformer):
        def visit_Call(self, n):
            self.generic_visit(n)
            if isinstance(n.func, ast.Name) and n.func.id == "len" and len(n.args) == 1 and isinstance(n.args[0], ast.Name) and n.args[0].id == "self":
                return ast.copy_location(ast.Name(id="__len_self__", ctx=ast.Load()), n)
            if isinstance(n.func, ast.Name) and n.func.id == "int" and len(n.args) == 1:
                return n
            return n
    body = [LenSelf().visit(st) for st in body]
    helpers = {m.name: m.node for m in C.methods.values() if not m.is_lambda and m.name not in ("__getitem__", "__init__")}
    for d_ in repo.all_defs():
        if d_.module is gi.module and d_.cls is None and d_.parent is None and not d_.is_lambda:
            helpers.setdefault(d_.name, d_.node)
    bad = und = None
    n_w = 0
    for k in (1, 2, 3, 4):
        for sizes in product((0, 1, 2), repeat=k):
            total = sum(sizes)
            if total == 0:
                continue
            trees = tuple(tuple(Fr(100 * (m + 1) + o) for o in range(sz)) for m, sz in enumerate(sizes))
            flat = [x for t in trees for x in t]
            cum = [0]
            for sz in sizes:
                cum.append(cum[-1] + sz)
            for key in list(range(total)) + [-1, -total]:
                env = {"self.trees": trees, "self.cumsum": tuple(Fr(c) for c in cum), "key": Fr(key), "__len_self__": Fr(total)}
                try:
                    got = VecEval(env, methods=helpers).run(body)
                except (OutR, RaiseR) as x:
                    bad = (sizes, key, f"an error ({x})", flat[key])
                    break
                except Uns as x:
                    und = f"{type(x).__name__}: {x}"
                    break
                except Exception as x:  # noqa: BLE001
                    und = f"{type(x).__name__}: {x}"
                    break
                n_w += 1
                if got != flat[key]:
                    bad = (sizes, key, got, flat[key])
                    break
            if bad or und:
                break
        if bad or und:
            break
    what = "chain[k] is the k-th element of the concatenation"
    if bad is not None:
        sizes, key, got, want = bad
        col.bad("R-CHAINVAL", gi.qualname, gi.loc(), what,
                f"members of sizes {list(sizes)}, index {key}: the method returns " + (f"element {int(got) % 100} of member {int(got) // 100 - 1}" if isinstance(got, Fr) else str(got)) +
                f", the concatenation has element {int(want) % 100} of member {int(want) // 100 - 1} there "
                f"(an empty member before a non-empty one, or a boundary index, is resolved to the wrong member)", stmt="chainval", definite=True)
    elif und is not None:
        col.unresolved("R-CHAINVAL", gi.qualname, gi.loc(), what, f"cannot fold the lookup exactly: {und}", stmt="chainval")
    else:
        col.ok("R-CHAINVAL", gi.qualname, gi.loc(), what, f"{n_w} (layout, index) pairs folded", stmt="chainval")


# ------------------------------------------------------------------ R-ROWS / map
def rows_rule(ctx, col):
    repo = ctx.repo
    fs = repo.get_def(f"{POP}.Populations.from_swc")
    src = norm_src(fs.node)
    ok = "fs = [Population.find_swcs(d, ext=ext, relpath=True) for d in roots]" in src
    col.check(ok, "R-ROWS", fs.qualname, fs.loc(), "files are listed relative to each root", "", "find_swcs(..., relpath=True) per root missing", stmt="relpath")
    ok = "inter = list(reduce(lambda a, b: set(a).intersection(set(b)), fs))" in src and "fs = [inter for _ in roots]" in src
    col.check(ok, "R-ROWS", fs.qualname, fs.loc(), "with intersect, every root gets the *same* list object of common relative paths (same order in every row)",
              "", "the common file list is not shared as one list across roots", stmt="shared-list")
    ok = "LazyLoadingTrees([os.path.join(d, p) for p in fs[i]], **kwargs), root=d" in src and "for i, d in enumerate(roots)" in src
    col.check(ok, "R-ROWS", fs.qualname, fs.loc(), "population i joins root i with file list i, lazily", "", "population construction differs", stmt="per-root")
    g = repo.get_def(f"{POP}.Populations.__getitem__")
    col.check(norm_src(g.node.body[-1]) == "return [p[key] for p in self.populations]", "R-ROWS", g.qualname, g.loc(),
              "row i = tree i of every population, in population order", "", "row is not [p[key] for p in populations]", stmt="row")
    mp = repo.get_def(f"{POP}.Population.map")
    calls = [n for n in own_nodes(mp) if isinstance(n, ast.Call)]
    unordered = [c for c in calls if (dotted(c.func) or "").split(".")[-1] in ("as_completed", "imap_unordered", "submit")]
    ordered = [c for c in calls if norm_src(c.func) in ("p.map", "process_map") and c.args and norm_src(c.args[0]) == "fn"
               and norm_src(c.args[1]) == "trees"]
    col.check(not unordered and len(ordered) == 2, "R-ROWS", mp.qualname, mp.loc(), "map uses the order-preserving executor API on (fn, trees) in both arms",
              f"{len(ordered)} ordered call(s)", f"unordered API {[norm_src(c.func) for c in unordered]} / ordered calls {len(ordered)}", stmt="map")
    tr = [n for n in own_nodes(mp) if isinstance(n, ast.Assign) and norm_src(n.targets[0]) == "trees"]
    ok = len(tr) == 1 and norm_src(tr[0].value) == "(t for t in self.trees)" and norm_src(mp.node.body[-1]) == "return results"
    col.check(ok, "R-ROWS", mp.qualname, mp.loc(), "all trees, in order, are mapped and the results returned", "", "map does not iterate self.trees / return results", stmt="map-all")
    ni = repo.get_def(f"{POP}.NestTrees.__getitem__")
    col.check(norm_src(ni.node.body[-1]) == "return self.trees[self.idx[key]]", "R-ROWS", ni.qualname, ni.loc(),
              "a slice/filter view indexes through its index list", "", "NestTrees.__getitem__ differs", stmt="nest")


def run(ctx, col, tier):
    col.rule("R-ITER", "a parameter annotated Iterable/Iterator is consumed at most once unless first "
             "rebound to a materialised copy; several passes are a violation when a strong call site "
             "passes a generator / map / zip / filter object (otherwise reported as latent)", floor=8)
    col.rule("R-CACHE", "load-once typestate of the per-file slot: single writer, guarded by "
             "`slot is None` with the same key, filled from the same-numbered file; indexing goes "
             "normalise -> load -> read; construction reads nothing", floor=6, shape=True)
    col.rule("R-WHOCALLS", "only the loader calls the file readers in this module; the loader is "
             "reached only from indexing and from the explicit eager arm; construction probes at most "
             "element 0", floor=5)
    col.rule("R-CHAIN", "chain indexing: bisect-right decision table over cumsum[mid] ? idx, member "
             "lo-1 at offset idx - cumsum[lo-1], prefix sums from 0 in member order", floor=9, exhaustive=True, shape=True)
    col.rule("R-ROWS", "multi-directory rows share one list of common relative paths; rows and map "
             "preserve order (no unordered executor API)", floor=7, shape=True)
    col.not_decided += ["directory walking (os.walk order)", "what process pools do with exceptions"]
    col.assumptions += ["Executor.map and tqdm's process_map return results in input order (documented)"]
    from ..rules import memo
    memo.run(ctx, col, ('swcgeom.core.population', 'swcgeom.transforms.population'))
    from ..rules import ignoredparam
    ignoredparam.run(ctx, col, ('swcgeom.core.population', 'swcgeom.transforms.population'))
    # every container that normalises its key through the shared helper does so against ITS OWN length
    for dd in ctx.repo.all_defs():
        if dd.module.name != "swcgeom.core.population" or dd.name != "__getitem__" or dd.is_lambda:
            continue
        for c in own_nodes(dd):
            if isinstance(c, ast.Call) and dotted(c.func) == "_get_idx" and len(c.args) == 2:
                a1 = norm_src(c.args[1])
                if a1 == "len(self)":
                    col.ok("R-CHAIN", dd.qualname, dd.loc(c), "the key is normalised against the container's own length", norm_src(c), stmt="own-length")
                elif a1.startswith("len(self.") :
                    col.bad("R-CHAIN", dd.qualname, dd.loc(c), "the key is normalised against the container's own length",
                            f"`{norm_src(c)}` normalises the key against `{a1}`, the length of an inner container, not `len(self)`: a negative index of a view / slice is "
                            f"shifted by the wrong length and raises IndexError or returns another tree", stmt="own-length", definite=True)
    # relative paths are taken by os.path.relpath, never by cutting len(root) characters off a joined path
    fsw = ctx.repo.get_def("swcgeom.core.population.Population.find_swcs")
    cut = None
    lens = {}
    for n in own_nodes(fsw):
        if isinstance(n, ast.Assign) and len(n.targets) == 1 and isinstance(n.targets[0], ast.Name):
            lens[n.targets[0].id] = n.value
    def _mentions_len_root(e, depth=0):
        for x in ast.walk(e):
            if isinstance(x, ast.Call) and isinstance(x.func, ast.Name) and x.func.id == "len" and x.args and isinstance(x.args[0], ast.Name) and x.args[0].id == "root":
                return True
            if isinstance(x, ast.Name) and x.id in lens and depth < 2 and _mentions_len_root(lens[x.id], depth + 1):
                return True
        return False
    for n in own_nodes(fsw):
        if isinstance(n, ast.Subscript) and isinstance(n.slice, ast.Slice) and n.slice.lower is not None and _mentions_len_root(n.slice.lower):
            cut = n
    normalised = any(isinstance(c, ast.Call) and (dotted(c.func) or "").rsplit(".", 1)[-1] in ("normpath", "abspath", "realpath", "rstrip") and any(
        isinstance(a, ast.Name) and a.id == "root" for a in ast.walk(c)) for c in own_nodes(fsw))
    if cut is not None and not normalised:
        col.bad("R-ROWS", fsw.qualname, fsw.loc(cut), "paths relative to the root are computed by os.path.relpath",
                f"`{norm_src(cut)}` cuts len(root) (+ separator) characters off the walked path: for a root written with a trailing separator (`dir/`) one character too many "
                f"is cut (`sub` becomes `ub`), so nested files of that root are missing from the matched rows or the population fails to load", stmt="relpath-cut", definite=True)
    from ..rules import globlint
    globlint.run(ctx, col, ('swcgeom.core.population', 'swcgeom.transforms.population'))
    col.guard(iter_rule, ctx, col)
    col.guard(cache_rule, ctx, col)
    col.guard(chain_rule, ctx, col)
    col.guard(chain_by_value, ctx, col)
    from ..rules import smalllints2 as _s2
    _s2.run_twice(ctx, col, ('swcgeom.core.population',))
    col.guard(rows_rule, ctx, col)
    col.guard(anchored, ctx, col)
    col.guard(recognisers, ctx, col)
    col.guard(mapping, ctx, col)


def _expand(d, e, depth=3):
    """e with local names that have a single plain assignment in d replaced by their value (for reading through temporaries)"""
    if depth == 0:
        return [e]
    out = [e]
    for n in ast.walk(e):
        if isinstance(n, ast.Name):
            asg = [a for a in own_nodes(d) if isinstance(a, ast.Assign) and len(a.targets) == 1 and norm_src(a.targets[0]) == n.id]
            if len(asg) == 1:
                out += _expand(d, asg[0].value, depth - 1)
    return out


def anchored(ctx, col):
    """Statements that carry the clauses (three-way, one renaming per function) and the definite recognisers."""
    repo = ctx.repo
    L = repo.get_class(f"{POP}.LazyLoadingTrees")
    C = repo.get_class(f"{POP}.ChainTrees")
    load, lgi, linit = L.lookup_method("load"), L.lookup_method("__getitem__"), L.lookup_method("__init__")
    col.text_group("R-CACHE", load.qualname, load, [
        ("slot k is read from file k, with the stored options, only while it is empty",
         ["if self.trees[key] is None: self.trees[key] = Tree.from_swc(self.swcs[key], **self.kwargs)"], "a:load")], fixed=("Tree",))
    col.text_group("R-CACHE", lgi.qualname, lgi, [
        ("the key is normalised against the number of files", ["idx = _get_idx(key, len(self))"], "a:norm"),
        ("that slot is loaded", ["self.load(idx)"], "a:load-call"),
        ("that slot is returned", ["return cast(Tree, self.trees[idx])", "return self.trees[idx]"], "a:ret")], fixed=("_get_idx", "key"))
    col.text_group("R-CACHE", linit.qualname, linit, [
        ("the file list is materialised", ["self.swcs = list(swcs)"], "a:swcs"),
        ("one empty slot per file", ["self.trees = [None for _ in swcs]", "self.trees = [None for _ in self.swcs]", "self.trees = [None] * len(self.swcs)"], "a:slots"),
        ("reader options are kept", ["self.kwargs = kwargs"], "a:kw")], fixed=("swcs", "kwargs"))
    # the loader without any condition: every access reads the file again
    if not any(isinstance(n, (ast.If, ast.IfExp, ast.Try, ast.While, ast.Return, ast.BoolOp, ast.Match)) for n in own_nodes(load)):
        for n in own_nodes(load):
            if isinstance(n, ast.Assign) and isinstance(n.targets[0], ast.Subscript) and norm_src(n.targets[0].value) == "self.trees" \
                    and any(isinstance(c, ast.Call) and (dotted(c.func) or "").endswith("from_swc") for c in ast.walk(n.value)):
                col.bad("R-CACHE", load.qualname, load.loc(n), "the file is read only while the slot is still empty",
                        f"`{norm_src(n)}` is executed unconditionally (load() has no branch at all) and indexing calls load() on every access: "
                        f"a file is read once per access, not at most once", stmt="a:unguarded", definite=True)
    # a second cache over the same files
    m = repo.get_module(POP)
    for d in repo.all_defs():
        if d.module is not m or d.is_lambda:
            continue
        for c in own_nodes(d):
            if isinstance(c, ast.Call) and (dotted(c.func) or "").split(".")[-1] == "LazyLoadingTrees" and c.args:
                srcs = [x for e in _expand(d, c.args[0]) for x in ast.walk(e) if isinstance(x, ast.Attribute) and x.attr == "swcs"]
                if srcs and d.cls is not L:
                    col.bad("R-WHOCALLS", d.qualname, d.loc(c), "every file has one cache slot",
                            f"`{norm_src(c)[:90]}` builds a second loader over the file list of an existing one (`{norm_src(srcs[0])}`): "
                            f"a file reached through both is read once by each", stmt="a:second-cache", definite=True)
    # chain
    ci, cgi, cl = C.lookup_method("__init__"), C.lookup_method("__getitem__"), C.lookup_method("__len__")
    col.text_group("R-CHAIN", ci.qualname, ci, [
        ("members are materialised, in order", ["self.trees = list(trees)"], "a:members"),
        ("prefix sums from 0 over the length of every member", ["self.cumsum = np.cumsum([0] + [len(ts) for ts in self.trees])"], "a:cumsum")], fixed=("trees",))
    for a in own_nodes(ci):
        if isinstance(a, ast.Assign) and norm_src(a.targets[0]) == "self.cumsum":
            for e in _expand(ci, a.value):
                for comp in ast.walk(e):
                    if isinstance(comp, (ast.ListComp, ast.GeneratorExp)) and any(g.ifs for g in comp.generators):
                        kept = [x for x in own_nodes(ci) if isinstance(x, ast.Assign) and norm_src(x.targets[0]) == "self.trees"]
                        if kept and not any(isinstance(y, (ast.ListComp, ast.GeneratorExp)) and any(g.ifs for g in y.generators) or
                                            (isinstance(y, ast.Call) and dotted(y.func) == "filter") for y in ast.walk(kept[0].value)):
                            col.bad("R-CHAIN", ci.qualname, ci.loc(a), "prefix sums from 0 over the length of every member",
                                    f"the prefix sums are taken over a filtered list (`{norm_src(comp)[:80]}`) while `self.trees` keeps every member: "
                                    f"cumsum[k] no longer belongs to member k-1, so indices after a skipped member resolve to the wrong member",
                                    stmt="a:cumsum-filter", definite=True)
    col.text_group("R-CHAIN", cgi.qualname, cgi, [
        ("search range: members 1..n", ["i, j = 1, len(self.trees)"], "a:range"),
        ("the key is normalised against the total length", ["idx = _get_idx(key, len(self))"], "a:norm"),
        ("bisect-right over the prefix sums: an index equal to a prefix sum belongs to the next member",
         ["while i < j:\n    mid = (i + j) // 2\n    if self.cumsum[mid] <= idx:\n        i = mid + 1\n    else:\n        j = mid"], "a:bisect"),
        ("member i-1 at offset idx - cumsum[i-1]", ["return self.trees[i - 1][idx - self.cumsum[i - 1]]"], "a:result")], fixed=("_get_idx", "key"))
    col.text_group("R-CHAIN", cl.qualname, cl, [("total length is the last prefix sum", ["return self.cumsum[-1].item()", "return int(self.cumsum[-1])"], "a:len")])
    tp = repo.get_def(f"{POP}.Populations.to_population")
    col.text_group("R-CHAIN", tp.qualname, tp, [("chaining takes the members' containers in order",
                   ["return Population(ChainTrees(p.trees for p in self.populations))", "return Population(ChainTrees([p.trees for p in self.populations]))"], "a:chain")],
                   fixed=("Population", "ChainTrees"))
    # population indexing
    pg = repo.get_def(f"{POP}.Population.__getitem__")
    col.text_group("R-ROWS", pg.qualname, pg, [
        ("a slice is a view through the slice's indices of the same container", ["trees = NestTrees(self.trees, range(*key.indices(len(self))))", "return NestTrees(self.trees, range(*key.indices(len(self))))"], "a:slice"),
        ("an integer goes to the container", ["return cast(Tree, self.trees[int(key)])", "return self.trees[int(key)]", "return self.trees[key]"], "a:int")], fixed=("key", "NestTrees"))
    ng, ni = repo.get_def(f"{POP}.NestTrees.__getitem__"), repo.get_def(f"{POP}.NestTrees.__init__")
    col.text_group("R-ROWS", ng.qualname, ng, [("a view indexes through its index list", ["return self.trees[self.idx[key]]"], "a:nest")], fixed=("key",))
    col.text_group("R-ROWS", ni.qualname, ni, [("the view keeps the container", ["self.trees = trees"], "a:nest-t"), ("... and the materialised index list", ["self.idx = list(idx)"], "a:nest-i")],
                   fixed=("trees", "idx"))
    gx = repo.get_def(f"{POP}._get_idx")
    col.guard(_get_idx_table, ctx, col, gx)
    # rows
    fs = repo.get_def(f"{POP}.Populations.from_swc")
    col.text_group("R-ROWS", fs.qualname, fs, [
        ("files are listed relative to each root", ["fs = [Population.find_swcs(d, ext=ext, relpath=True) for d in roots]"], "a:relpath"),
        ("the common relative paths", ["inter = list(reduce(lambda a, b: set(a).intersection(set(b)), fs))"], "a:inter"),
        ("every root gets the same list object (same order in every row)", ["fs = [inter for _ in roots]"], "a:shared"),
        ("population i joins root i with file list i, lazily",
         ["populations = [Population(LazyLoadingTrees([os.path.join(d, p) for p in fs[i]], **kwargs), root=d) for i, d in enumerate(roots)]"], "a:per-root")],
        fixed=("roots", "ext", "kwargs", "Population", "LazyLoadingTrees", "reduce"))
    pg2 = repo.get_def(f"{POP}.Populations.__getitem__")
    col.text_group("R-ROWS", pg2.qualname, pg2, [("row i = tree i of every population, in population order", ["return [p[key] for p in self.populations]"], "a:row")], fixed=("key",))
    fsw = repo.get_def(f"{POP}.Population.find_swcs")
    col.text_group("R-ROWS", fsw.qualname, fsw, [
        ("paths are relative to the root only on request", ["rr = os.path.relpath(r, root) if relpath else r"], "a:rel"),
        ("files are selected by their extension", ["fs = filter(lambda f: os.path.splitext(f)[-1] == ext, files)"], "a:ext"),
        ("each selected file, joined to its directory, is listed", ["swcs.extend(os.path.join(rr, f) for f in fs)"], "a:list"),
        ("the list is returned", ["return swcs"], "a:ret")], fixed=("root", "ext", "relpath"))
    # str.strip with a multi-character argument strips a character SET, not a prefix
    for d in (fsw, fs, repo.get_def(f"{POP}.Population.from_swc")):
        for c in own_nodes(d):
            if isinstance(c, ast.Call) and isinstance(c.func, ast.Attribute) and c.func.attr in ("lstrip", "rstrip", "strip") and len(c.args) == 1 \
                    and isinstance(c.args[0], ast.Constant) and isinstance(c.args[0].value, str) and len(set(c.args[0].value)) > 1:
                col.bad("R-ROWS", d.qualname, d.loc(c), "file names are passed on unchanged",
                        f"`{norm_src(c)}` strips every leading/trailing character of the SET {sorted(set(c.args[0].value))}, not the prefix "
                        f"{c.args[0].value!r}: a file or folder whose name starts (ends) with one of them (`.hidden.swc`, `../x`) is renamed, so the path no "
                        f"longer names the file found", stmt="a:strip-set", definite=True)


def recognisers(ctx, col):
    """Definite facts read off the code (not shapes)."""
    from ..fold import Folder, Unfoldable
    repo = ctx.repo
    pi = repo.get_def(f"{POP}.Population.__init__")
    # eager loading must not happen when lazy_loading is true
    for c in own_nodes(pi):
        if not (isinstance(c, ast.Call) and isinstance(c.func, ast.Attribute) and c.func.attr == "load"):
            continue
        conds, x, prev = [], repo.parent(c), c
        while x is not None and x is not pi.node:
            if isinstance(x, ast.If) and "lazy_loading" in names_in(x.test):
                conds.append((x.test, any(prev is b for b in x.body)))
            prev, x = x, repo.parent(x)
        runs = True
        try:
            for t, pos in conds:
                v = bool(Folder(repo, pi.module, None, {"lazy_loading": True}).eval(t))
                runs = runs and (v == pos)
        except Unfoldable:
            continue
        if runs:
            col.bad("R-WHOCALLS", pi.qualname, pi.loc(c), "with lazy_loading=True construction loads nothing",
                    f"`{norm_src(c)}` is reached with lazy_loading=True (guards: {[norm_src(t) for t, _ in conds] or 'none'}): every file is read at construction",
                    stmt="a:eager", definite=True)
    # bisect over a key that was not normalised
    C = repo.get_class(f"{POP}.ChainTrees")
    cgi = C.lookup_method("__getitem__")
    params = {a.arg for a in cgi.node.args.posonlyargs + cgi.node.args.args} - {"self"}
    for w in own_nodes(cgi):
        if not isinstance(w, ast.While):
            continue
        for cmp_ in ast.walk(w):
            if isinstance(cmp_, ast.Compare) and len(cmp_.ops) == 1 and any("cumsum" in norm_src(z) for z in (cmp_.left, cmp_.comparators[0])):
                for side in (cmp_.left, cmp_.comparators[0]):
                    if isinstance(side, ast.Name):
                        defs = [a for a in own_nodes(cgi) if isinstance(a, ast.Assign) and norm_src(a.targets[0]) == side.id]
                        raw = side.id in params and not defs or (defs and all(isinstance(a.value, ast.Name) and a.value.id in params for a in defs))
                        if raw:
                            col.bad("R-CHAIN", cgi.qualname, cgi.loc(cmp_), "the key is normalised against the total length",
                                    f"`{norm_src(cmp_)}` compares the prefix sums with `{side.id}`, which is the caller's key as given: a negative index is "
                                    f"below every prefix sum, so it resolves to member 0 at that negative offset instead of counting from the end of the chain",
                                    stmt="a:raw-key", definite=True)
    # order
    for q in ("Populations.__getitem__", "Populations.to_population", "Populations.__iter__", "Population.map", "Population.__iter__"):
        d = repo.get_def(f"{POP}.{q}")
        for c in own_nodes(d):
            rev = None
            if isinstance(c, ast.Call) and dotted(c.func) in ("reversed", "sorted", "set", "frozenset") and c.args and \
                    any(isinstance(z, ast.Attribute) and z.attr in ("populations", "trees") for z in ast.walk(c.args[0])):
                rev = c
            if isinstance(c, ast.Subscript) and isinstance(c.slice, ast.Slice) and c.slice.step is not None and norm_src(c.slice.step) == "-1" \
                    and isinstance(c.value, ast.Attribute) and c.value.attr in ("populations", "trees"):
                rev = c
            if isinstance(c, ast.Call) and (dotted(c.func) or "").split(".")[-1] in ("as_completed", "imap_unordered"):
                rev = c
            if rev is not None:
                col.bad("R-ROWS", d.qualname, d.loc(rev), "members / results are taken in order",
                        f"`{norm_src(rev)[:80]}` does not keep the stored order ({q} must yield population k / tree k at position k)", stmt="a:order", definite=True)


def _get_idx_table(ctx, col, gx):
    """_get_idx(key, n): the decision table over key in {-n-1, -n, -1, 0, n-1, n} for n = 3, folded."""
    from ..fold import Unfoldable
    n = 3
    want = {-4: IndexError, -3: 0, -1: 2, 0: 0, 2: 2, 3: IndexError}
    for k, w in want.items():
        try:
            got = _run_get_idx(ctx, gx, k, n)
        except Unfoldable as e:
            col.unresolved("R-CHAIN", gx.qualname, gx.loc(), f"_get_idx({k}, {n})", str(e), stmt=f"a:getidx:{k}")
            continue
        col.check(got == w, "R-CHAIN", gx.qualname, gx.loc(), f"_get_idx({k}, {n}) = {getattr(w, '__name__', w)}",
                  str(getattr(got, "__name__", got)), f"_get_idx({k}, {n}) gives {getattr(got, '__name__', got)}, expected {getattr(w, '__name__', w)}",
                  stmt=f"a:getidx:{k}", definite=True)


def _run_get_idx(ctx, gx, k, n):
    """Straight-line/if interpretation of the small pure function with constant arguments."""
    from ..fold import Folder, Unfoldable
    params = [a.arg for a in gx.node.args.args]
    env = dict(zip(params, (k, n)))

    def ev(e):
        return Folder(ctx.repo, gx.module, None, dict(env)).eval(e)

    def block(body):
        for s in body:
            if isinstance(s, ast.Expr) and isinstance(s.value, ast.Constant):
                continue
            if isinstance(s, ast.If):
                r = block(s.body if ev(s.test) else s.orelse)
                if r is not None:
                    return r
            elif isinstance(s, ast.Assign) and len(s.targets) == 1 and isinstance(s.targets[0], ast.Name):
                env[s.targets[0].id] = ev(s.value)
            elif isinstance(s, ast.AugAssign) and isinstance(s.target, ast.Name):
                env[s.target.id] = ev(ast.BinOp(left=ast.Name(id=s.target.id, ctx=ast.Load()), op=s.op, right=s.value))
            elif isinstance(s, ast.Raise):
                exc = s.exc.func if isinstance(s.exc, ast.Call) else s.exc
                return ("raise", norm_src(exc))
            elif isinstance(s, ast.Return):
                return ("ret", ev(s.value))
            else:
                raise Unfoldable(f"statement kind {type(s).__name__}")
        return None
    r = block(gx.node.body)
    if r is None:
        raise Unfoldable("falls off the end")
    if r[0] == "raise":
        return IndexError if r[1] == "IndexError" else r[1]
    return r[1]


def mapping(ctx, col):
    """PopulationTransform: one result per tree, in order."""
    d = ctx.repo.get_def("swcgeom.transforms.population.PopulationTransform.__call__")
    col.text_group("R-ROWS", d.qualname, d, [
        ("the results are collected in a fresh list", ["trees = []"], "map:init"),
        ("every tree of the population, in order, is transformed and its result appended",
         ["for t in population:\n    new_t = self.transform(t)\n    if new_t.source == '':\n        new_t.source = t.source\n    trees.append(new_t)"], "map:loop"),
        ("the results form the new population, same root", ["return Population(trees, root=population.root)"], "map:ret")],
        fixed=("population", "Population"))
