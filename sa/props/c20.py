"""C20 -- image stacks survive save/load (structural clauses)."""

from __future__ import annotations

import ast

from ..fold import Folder, Unfoldable
from ..model import AnalysisError, dotted, norm_src, own_nodes
from ..util import kwarg, names_in

IO = "swcgeom.images.io"
CANON = "XYZC"


def conversion_arms(d, var):
    """The if/elif/else ladder under `if dtype is not None:` -> [(test, body)]."""
    for n in own_nodes(d):
        if isinstance(n, ast.If) and norm_src(n.test) == "dtype is not None":
            ladders = [s for s in n.body if isinstance(s, ast.If)]
            if len(ladders) == 1:
                arms = []
                cur = ladders[0]
                while True:
                    arms.append((cur.test, cur.body))
                    if len(cur.orelse) == 1 and isinstance(cur.orelse[0], ast.If):
                        cur = cur.orelse[0]
                        continue
                    arms.append((None, cur.orelse))
                    break
                return n, arms
    return None, []


def arm_kind(test) -> str:
    """'to-float' | 'to-uint' | 'else' from the np.issubdtype tests."""
    if test is None:
        return "else"
    s = norm_src(test)
    i_f = s.find("issubdtype(dtype, np.floating)")
    i_u = s.find("issubdtype(dtype, np.unsignedinteger)")
    if i_f >= 0 and i_u < 0:
        return "to-float"
    if i_u >= 0 and i_f < 0:
        return "to-uint"
    return "?"


def yields_requested_dtype(e: ast.AST) -> bool:
    """Expression whose dtype is the requested one: X.astype(dtype), or python-scalar * that."""
    if isinstance(e, ast.Call) and isinstance(e.func, ast.Attribute) and e.func.attr == "astype" \
            and e.args and norm_src(e.args[0]) == "dtype":
        return True
    if isinstance(e, ast.BinOp) and isinstance(e.op, (ast.Mult, ast.Div)):
        l, r = e.left, e.right
        if yields_requested_dtype(r) and isinstance(l, (ast.Name, ast.Constant)) and not isinstance(e.op, ast.Div):
            return True  # scalar * array keeps the array's dtype
        if yields_requested_dtype(l) and isinstance(r, (ast.Name, ast.Constant)):
            return True
    return False


def run(ctx, col, tier):
    repo = ctx.repo
    col.rule("R-INPLACE", "saving or wrapping a stack does not write into the array that was handed in: no `out=`, augmented assignment, subscript "
             "store or in-place method through the parameter or a numpy view of it (expand_dims / moveaxis / reshape / get_full ...) before it has "
             "been rebound to a fresh array; zero expected, positive examples kept", floor=1)
    from ..rules import inplace as _inplace
    _inplace.check(ctx, col, "R-INPLACE", [("swcgeom.images.io.save_tiff", ["data"]),
                                          ("swcgeom.images.io.NDArrayImageStack.__init__", ["imgs"])])
    col.rule("R-DTYPE", "every arm of a dtype-conversion block rebinds the array by plain assignment "
             "to an expression of the requested dtype (an augmented assignment keeps the old dtype "
             "and writes the caller's array); scale factor direction matches the arm", floor=6, exhaustive=True)
    col.rule("R-KEYNORM", "every subscript of the unsigned-maximum table is an np.dtype (np.dtype(.) or "
             "a value read from a .dtype attribute); the table maps uintN to 2**N - 1", floor=8, exhaustive=True)
    col.rule("R-AXES", "the axes string the writer records equals the canonical (X,Y,Z,C) order permuted "
             "by the constant moveaxis it applies; the reader's argsort over its axis table maps that "
             "string back to (X,Y,Z,C); rasterised frames are stacked as (Z, X, Y)", floor=6)
    col.not_decided += ["what tifffile / pynrrd persist", "voxel membership of the rasteriser (sdflit sampling over run-time geometry)",
                        "value rounding of the integer/float rescaling"]
    col.assumptions += ["numpy: python-scalar * array keeps the array dtype; astype(T) has dtype T",
                        "np.moveaxis / transpose permute axes as documented"]

    from ..rules import memo
    memo.run(ctx, col, ('swcgeom.images.io', 'swcgeom.images.folder', 'swcgeom.transforms.image_stack'))
    from ..rules import ignoredparam
    ignoredparam.run(ctx, col, ('swcgeom.images.io', 'swcgeom.transforms.image_stack'))
    col.guard(dtype_rule, ctx, col)
    col.guard(keynorm, ctx, col)
    col.guard(axes, ctx, col)
    col.guard(raster, ctx, col)
    col.guard(dispatch, ctx, col)


def dtype_rule(ctx, col):
    repo = ctx.repo
    for q, var in ((f"{IO}.NDArrayImageStack.__init__", "imgs"), (f"{IO}.save_tiff", "data")):
        d = repo.get_def(q)
        block, arms = conversion_arms(d, var)
        if block is None:
            raise AnalysisError(f"anchor-vanished: dtype conversion block of {q}")
        # statements of the block after the ladder (save_tiff converts once, after choosing a factor)
        tail = [s for s in block.body if not isinstance(s, ast.If)]
        for test, body in arms:
            kind = arm_kind(test)
            stmts = list(body) + tail
            writes = [s for s in stmts if (isinstance(s, ast.Assign) and norm_src(s.targets[0]) == var)
                      or (isinstance(s, ast.AugAssign) and norm_src(s.target) == var)]
            what = f"{d.name if d.cls is None else d.cls.name}: arm {kind}"
            if kind == "?":
                col.unresolved("R-DTYPE", q, d.loc(test), what, f"cannot classify `{norm_src(test)[:60]}`", stmt=f"{var}:{kind}")
                continue
            if len(writes) != 1:
                col.bad("R-DTYPE", q, d.loc(body[0]) if body else d.loc(), what,
                        f"{len(writes)} assignments to `{var}` in this arm: the result does not get the requested dtype",
                        stmt=f"{var}:{kind}")
                continue
            w = writes[0]
            if isinstance(w, ast.AugAssign):
                col.bad("R-DTYPE", q, d.loc(w), what,
                        f"`{norm_src(w)}` is an in-place update: the array keeps its old dtype (the requested dtype is "
                        f"never applied) and the caller's array is modified", stmt=f"{var}:{kind}")
                continue
            ok = yields_requested_dtype(w.value)
            col.check(ok, "R-DTYPE", q, d.loc(w), what, norm_src(w)[:70],
                      f"`{norm_src(w)[:70]}` does not produce the requested dtype", stmt=f"{var}:{kind}")
            # factor direction
            facs = [s for s in body if isinstance(s, ast.Assign) and "factor" in norm_src(s.targets[0])]
            if kind in ("to-float", "to-uint") and facs:
                f = norm_src(facs[0].value)
                inv = f.startswith(("1 /", "1.0 /"))
                ok = inv if kind == "to-float" else (not inv and "UINT_MAX[" in f)
                col.check(ok, "R-DTYPE", q, d.loc(facs[0]), f"{what}: scale factor direction",
                          f, f"factor `{f}` has the wrong direction for {kind}", stmt=f"{var}:{kind}:factor")
            elif kind == "else" and facs:
                col.check(norm_src(facs[0].value) == "1", "R-DTYPE", q, d.loc(facs[0]), f"{what}: no rescaling", "", "else arm rescales", stmt=f"{var}:else:factor")


def keynorm(ctx, col):
    repo = ctx.repo
    m = repo.get_module(IO)
    b = m.bindings.get("UINT_MAX")
    if b is None or not isinstance(b.target, ast.Dict):
        raise AnalysisError("anchor-vanished: UINT_MAX dict literal")
    for k, v in zip(b.target.keys, b.target.values):
        ks = norm_src(k)
        ok_key = ks.startswith("np.dtype(np.uint") and ks.endswith(")")
        bits = ks[len("np.dtype(np.uint"):-1]
        try:
            val = Folder(repo, m).eval(v)
        except Unfoldable:
            val = None
        ok = ok_key and bits.isdigit() and val == 2 ** int(bits) - 1
        col.judge(ok_key and val is not None, ok, "R-KEYNORM", f"{IO}.UINT_MAX", f"{m.relpath}:{k.lineno}", f"entry {ks}",
                  f"{val}", f"value {val} is not 2**{bits} - 1", stmt=f"entry:{ks}")
    n = 0
    for d in repo.defs.values():
        if d.module is not m:
            continue
        for s in own_nodes(d):
            if isinstance(s, ast.Subscript) and norm_src(s.value) == "UINT_MAX":
                n += 1
                key = s.slice
                ks = norm_src(key)
                ok = False
                why = ""
                if isinstance(key, ast.Call) and dotted(key.func) == "np.dtype":
                    ok = True
                elif isinstance(key, ast.Attribute) and key.attr == "dtype":
                    ok = True
                elif isinstance(key, ast.Name):
                    binds = [a for a in own_nodes(d) if isinstance(a, ast.Assign) and norm_src(a.targets[0]) == key.id]
                    if binds and all((isinstance(a.value, ast.Attribute) and a.value.attr == "dtype")
                                     or (isinstance(a.value, ast.Call) and dotted(a.value.func) == "np.dtype") for a in binds):
                        ok = True
                    elif key.id in d.params:
                        why = f"`{key.id}` is the caller's dtype argument (a scalar type such as np.uint8), not an np.dtype: " \
                              f"the lookup raises KeyError"
                    else:
                        why = f"`{key.id}` is not bound from a .dtype / np.dtype(.)"
                col.check(ok, "R-KEYNORM", d.qualname, d.loc(s), f"UINT_MAX[{ks}]", "key is an np.dtype", why or f"key `{ks}` is not normalised",
                          stmt=f"key:{ks}")
    col.analysed["uint_max_subscripts"] = n


def _moveaxis(order: str, src: int, dst: int) -> str:
    xs = list(order)
    a = xs.pop(src)
    xs.insert(dst if dst >= 0 else len(xs) + 1 + dst, a)
    return "".join(xs)


def axes(ctx, col):
    repo = ctx.repo
    d = repo.get_def(f"{IO}.save_tiff")
    ax = [n for n in own_nodes(d) if isinstance(n, ast.Assign) and norm_src(n.targets[0]) == "axes"]
    mv = [n for n in own_nodes(d) if isinstance(n, ast.Call) and dotted(n.func) in ("np.moveaxis", "np.transpose")]
    if len(ax) != 1 or not isinstance(ax[0].value, ast.Constant):
        raise AnalysisError("anchor-vanished: axes literal of save_tiff")
    declared = ax[0].value.value
    order = CANON
    recognised = True
    for c in mv:
        if dotted(c.func) == "np.moveaxis" and len(c.args) == 3 and norm_src(c.args[0]) == "data":
            try:
                s_, d_ = Folder(repo, d.module).eval(c.args[1]), Folder(repo, d.module).eval(c.args[2])
                order = _moveaxis(order, s_, d_)
            except Unfoldable:
                recognised = False
        elif dotted(c.func) == "np.transpose" and len(c.args) == 2:
            try:
                perm = Folder(repo, d.module).eval(c.args[1])
                order = "".join(order[i] for i in perm)
            except Unfoldable:
                recognised = False
    col.judge(recognised, order == declared, "R-AXES", d.qualname, d.loc(ax[0]), "declared axes = (X,Y,Z,C) permuted by the moves applied",
              f"declared {declared}, computed {order}", f"the file is written in {order} order but labelled {declared!r}: "
              f"a reader that honours the label gets transposed data", stmt="declared")
    ok = any(isinstance(n, ast.Call) and norm_src(n.func) == "metadata.setdefault" and norm_src(n.args[0]) == "'axes'"
             and norm_src(n.args[1]) == "axes" for n in own_nodes(d)) and \
        any(isinstance(n, ast.Call) and norm_src(n.func) == "kwargs.update" and kwarg(n, "metadata") is not None for n in own_nodes(d))
    col.shape(ok, "R-AXES", d.qualname, d.loc(), "the axes string is recorded in the file's metadata", "", "axes are not put into metadata", stmt="metadata")
    ok = any(isinstance(n, ast.If) and norm_src(n.test) == "data.ndim == 3" and
             norm_src(n.body[0]) == "data = np.expand_dims(data, -1)" for n in own_nodes(d))
    col.shape(ok, "R-AXES", d.qualname, d.loc(), "3-D input gets a trailing channel axis", "", "3-D arm is not expand_dims(data, -1)", stmt="channel")
    # reader
    m = repo.get_module(IO)
    tbl = m.bindings.get("AXES_ORDER")
    table = Folder(repo, m).eval(tbl.target) if tbl is not None else None
    ok = isinstance(table, dict) and [table.get(c) for c in CANON] == [0, 1, 2, 3]
    col.check(ok, "R-AXES", f"{IO}.AXES_ORDER", f"{m.relpath}:{tbl.node.lineno if tbl else 0}", "axis table places X,Y,Z,C at 0,1,2,3",
              str(table), f"table {table}", stmt="table")
    r = repo.get_def(f"{IO}.TiffImageStack.__init__")
    src = norm_src(r.node)
    ok = "orders = [AXES_ORDER[c] for c in axes]" in src and "imgs = imgs.transpose(np.argsort(orders))" in src
    col.shape(ok, "R-AXES", r.qualname, r.loc(), "reader reorders by argsort of the table positions of the file's axes", "",
              "reader does not transpose(argsort([AXES_ORDER[c] for c in axes]))", stmt="reader")
    if isinstance(table, dict) and all(c in table for c in declared):
        orders = [table[c] for c in declared]
        tr = [n for n in own_nodes(r) if isinstance(n, ast.Call) and isinstance(n.func, ast.Attribute) and n.func.attr == "transpose" and len(n.args) == 1]
        od = [n for n in own_nodes(r) if isinstance(n, ast.Assign) and isinstance(n.targets[0], ast.Name) and
              norm_src(n.value) in ("[AXES_ORDER[c] for c in axes]", "[AXES_ORDER[a] for a in axes]", "list(map(AXES_ORDER.get, axes))")]
        perm = None
        if len(tr) == 1 and len(od) == 1:
            oname = od[0].targets[0].id
            arg = norm_src(tr[0].args[0])
            if arg in (f"np.argsort({oname})", f"{oname}.argsort()", f"numpy.argsort({oname})"):
                perm = sorted(range(len(orders)), key=lambda i: orders[i])
            elif arg == oname:
                perm = list(orders)
        if perm is None:
            col.unresolved("R-AXES", r.qualname, r.loc(), "reader maps the writer's axes string back to (X,Y,Z,C)",
                           "the permutation the reader applies is not of a recognised form", stmt="roundtrip")
        else:
            back = "".join(declared[i] for i in perm)
            col.check(back == CANON, "R-AXES", r.qualname, r.loc(tr[0]), "reader maps the writer's axes string back to (X,Y,Z,C)",
                      f"{declared} -> {back}", f"`{norm_src(tr[0])[:60]}` turns a file written as {declared} into {back}, not {CANON} "
                      f"(transpose(p) puts input axis p[k] at position k; the inverse permutation argsort(p) is needed)", stmt="roundtrip", definite=True)
    ok = 'axes = "ZXYC" if imgs.ndim == 4 else "ZXY"'.replace('"', "'") in src.replace('"', "'")
    col.shape(ok, "R-AXES", r.qualname, r.loc(), "files without usable axes metadata are taken as ZXY(C), the writer's layout", "",
              "fallback axes differ from the writer's layout", stmt="fallback")
    # rasteriser frame layout
    t = repo.get_def("swcgeom.transforms.image_stack.ToImageStack.__call__")
    ok = norm_src(t.node.body[-1]) == "return np.stack(list(self.transform(x, verbose=False)), axis=0)"
    col.shape(ok, "R-AXES", t.qualname, t.loc(), "rasterised frames (one per z) are stacked along axis 0: (Z, X, Y)", "",
              "frames are not stacked along axis 0", stmt="stack")
    s = repo.get_def("swcgeom.transforms.image_stack.ToImageStack.save_tif")
    ok = any(isinstance(n, ast.Dict) and any(isinstance(k, ast.Constant) and k.value == "axes" and
                                              isinstance(v, ast.Constant) and v.value == "ZXY" for k, v in zip(n.keys, n.values))
             for n in own_nodes(s))
    col.shape(ok, "R-AXES", s.qualname, s.loc(), "frame-wise writer labels the file ZXY", "", "axes label is not ZXY", stmt="save_tif")
    g = repo.get_def("swcgeom.transforms.image_stack.ToImageStack._get_samplers")
    # axis kinds: nothing that belongs to one axis (a component of the voxel size, of a corner) is combined with another axis
    from ..rules import axiskind
    col.rule("R-AXISKIND", "per-axis quantities stay on their axis: in the sampler set-up no length along one axis is added to / compared with / divided by a length "
             "along another one, no single-axis length is added to a whole per-axis triple, and the k-th component of a position triple is a length along axis k "
             "(abstract interpretation over the kinds X, Y, Z, per-axis triple, pure number); positive examples kept", floor=2)
    fx = axiskind.fixture_ok()
    col.check(fx.get("slice_at_x_step", 0) >= 1 and fx.get("half_x_voxel_everywhere", 0) >= 1 and fx.get("swapped_components", 0) >= 1 and fx.get("fine") == 0,
              "R-AXISKIND", "sa.fixtures.axiskind_positive", "sa/fixtures/axiskind_positive.py:1", "the axis-kind interpreter recognises its kept examples", str(fx),
              f"fixture results {fx}", stmt="fixture")
    axiskind.check_function(col, "R-AXISKIND", g, {"coord_min": axiskind.VEC, "coord_max": axiskind.VEC, "offset": axiskind.VEC}, {"resolution": axiskind.VEC},
                            "sampling positions: every per-axis quantity stays on its own axis")
    # the slices, folded exactly at witness boxes whose z extent is / is not a whole number of voxels: one sampler per voxel centre below the upper corner
    from fractions import Fraction as _Fr
    from ..vecfold import VecEval, Unsupported as _Uns, Randomised as _Rnd, ZeroNorm as _Zero
    col.rule("R-SLICES", "the sampler generator yields exactly one slice per voxel centre zmin + dz/2 + k*dz below the upper corner, at that depth (the generator is folded exactly at "
             "witness boxes whose z extent is a whole / half / non-integral number of voxels, isotropic and anisotropic voxel sizes)", floor=1, exhaustive=True)
    bad = und = None
    n_w = 0
    for res in ((1, 1, 1), (1, 1, 2), (2, 1, _Fr(1, 2))):
        for zext in (2, 3, _Fr(5, 2), _Fr(7, 2), 4, 5, _Fr(1, 2)):
            dz = _Fr(res[2])
            env = {"coord_min": (0, 0, 0), "coord_max": (4, 4, zext), "offset": None, "self.resolution": res, "np.inf": 10 ** 9}
            try:
                helpers = {m_.name: m_.node for m_ in g.cls.methods.values() if not m_.is_lambda and m_ is not g} if g.cls is not None else {}
                helpers.update({d_.name: d_.node for d_ in repo.all_defs() if d_.module is g.module and d_.cls is None and d_.parent is None and not d_.is_lambda and d_.name != "_tp3f"})
                ev = VecEval(env, opaque_calls=("RangeSampler",), identity_calls=("_tp3f",), methods=helpers)
                ev.run(g.node.body)
            except (_Uns, _Rnd, _Zero) as x:
                und = f"{type(x).__name__}: {x}"
                break
            except Exception as x:  # noqa: BLE001
                und = f"{type(x).__name__}: {x}"
                break
            n_w += 1
            want = []
            z = dz / 2
            while z < _Fr(zext):
                want.append(z)
                z += dz
            got = []
            for y in ev.yields:
                if isinstance(y, tuple) and len(y) >= 3 and y[0] == "__obj__" and isinstance(y[2], tuple) and len(y[2]) == 3:
                    got.append(y[2][2])
                else:
                    und = f"a yielded value is not a sampler over a (x, y, z) corner: {y!r}"[:120]
            if und:
                break
            if got != want:
                bad = (res, zext, [str(x) for x in got], [str(x) for x in want])
                break
        if bad or und:
            break
    what_s = "one slice per voxel centre below the upper corner, at that depth"
    if bad is not None:
        col.bad("R-SLICES", g.qualname, g.loc(), what_s, f"resolution {tuple(str(x) for x in bad[0])}, box z extent {bad[1]}: slices at z = {bad[2]}, the voxel centres are {bad[3]} -- "
                f"the stack has another number of frames than the bounding box has voxel layers, or samples them at the wrong depth", stmt="slices", definite=True)
    elif und is not None:
        col.unresolved("R-SLICES", g.qualname, g.loc(), what_s, f"cannot fold the generator exactly: {und}", stmt="slices")
    else:
        col.ok("R-SLICES", g.qualname, g.loc(), what_s, f"{n_w} witness boxes folded", stmt="slices")
    src = norm_src(g.node)
    ok = "offset = offset or stride / 2" in src and "_tp3f(coord_min + offset)" in src
    col.shape(ok, "R-AXES", g.qualname, g.loc(), "samples are taken at voxel centres (half a voxel from the lower corner)", "",
              "sampling offset is not stride / 2 from coord_min", stmt="half-voxel")


# ------------------------------------------------------------------ rasteriser
_ROUNDERS = {"floor": "floor", "ceil": "ceil", "trunc": "trunc", "fix": "trunc", "round": "round", "rint": "round", "around": "round"}


def _rounding(e: ast.AST) -> set:
    out = set()
    for n in ast.walk(e):
        if isinstance(n, ast.Call):
            fn = (dotted(n.func) or "").split(".")[-1]
            if fn in _ROUNDERS:
                out.add(_ROUNDERS[fn])
            if fn == "int" or (isinstance(n.func, ast.Attribute) and n.func.attr == "astype" and n.args and
                               any(w in norm_src(n.args[0]) for w in ("int", "long"))):
                out.add("trunc")
    return out


def raster(ctx, col):
    repo = ctx.repo
    T = "swcgeom.transforms.image_stack.ToImageStack"
    t, g, sc, call = (repo.get_def(f"{T}.{q}") for q in ("transform", "_get_samplers", "_get_scene", "__call__"))
    col.text_group("R-AXES", t.qualname, t, [
        ("the scene is built from the tree", ["scene = self._get_scene(x)"], "r:scene"),
        ("node positions and radii", ["xyz, r = x.xyz(), x.r().reshape(-1, 1)"], "r:xyzr"),
        ("the box starts at the floor of the lowest sphere bound", ["coord_min = np.floor(np.min(xyz - r, axis=0))"], "r:min"),
        ("... and ends at the ceiling of the highest", ["coord_max = np.ceil(np.max(xyz + r, axis=0))"], "r:max"),
        ("one sampler per z slice over that box", ["samplers = self._get_samplers(coord_min, coord_max)"], "r:samplers"),
        ("each slice is sampled from the scene", ["voxel = sampler.sample(scene)"], "r:sample"),
        ("a frame is the first colour channel of the single z layer, as 0/255", ["frame = (255 * voxel[..., 0, 0]).astype(np.uint8)"], "r:frame"),
        ("frames are produced in z order", ["yield frame"], "r:yield")], fixed=("x",))
    col.text_group("R-AXES", g.qualname, g, [
        ("the step is the resolution", ["stride = self.resolution"], "r:stride"),
        ("samples are taken at voxel centres: half a voxel from the lower corner, per axis", ["offset = offset or stride / 2"], "r:half"),
        ("lower corner + offset", ["xmin, ymin, zmin = _tp3f(coord_min + offset)"], "r:lo"),
        ("upper corner", ["xmax, ymax, zmax = _tp3f(coord_max)"], "r:hi"),
        ("slices start at the first z centre", ["z = zmin"], "r:z0"),
        ("one sampler per z centre below the upper corner, one layer thick, stepping by the z resolution",
         ["while z < zmax:\n    yield RangeSampler((xmin, ymin, z), (xmax, ymax, z + stride[2] - eps), _tp3f(stride))\n    z += stride[2]"], "r:loop")],
        fixed=("coord_min", "coord_max", "offset", "RangeSampler", "_tp3f"))
    col.text_group("R-AXES", sc.qualname, sc, [
        ("one rounded cone per (parent, child) edge with both positions and both radii", ["sdf = RoundCone(_tp3f(n.xyz()), _tp3f(c.xyz()), n.r, c.r).into()"], "r:cone"),
        ("every cone is added to the scene", ["scene.add_object(SDFObject(sdf, material).into())"], "r:add"),
        ("the node is handed to its parent", ["return n"], "r:hand"),
        ("bottom-up over the whole tree", ["x.traverse(leave=leave)"], "r:walk")], fixed=("x", "RoundCone", "SDFObject", "_tp3f"))
    from ..rules import callbacks
    callbacks.check(ctx, col, "R-AXES", sc, "the node handed up by a node's callback is the child its parent draws a cone to")
    col.text_group("R-AXES", call.qualname, call, [
        ("frames (one per z) are stacked along axis 0: (Z, X, Y)", ["return np.stack(list(self.transform(x, verbose=False)), axis=0)"], "r:stack")], fixed=("x",))
    # rounding direction of the bounding box
    for a in own_nodes(t):
        if isinstance(a, ast.Assign) and len(a.targets) == 1 and isinstance(a.targets[0], ast.Name) and a.targets[0].id in ("coord_min", "coord_max"):
            fnames = {(dotted(c.func) or "").split(".")[-1] for c in ast.walk(a.value) if isinstance(c, ast.Call)}
            if not ({"min", "max", "amin", "amax"} & fnames):
                continue  # the `ranges` arm
            nm, want = a.targets[0].id, ("floor" if a.targets[0].id == "coord_min" else "ceil")
            got = _rounding(a.value)
            if got and want not in got:
                col.bad("R-AXES", t.qualname, t.loc(a), f"the box bound {nm} is rounded outward ({want})",
                        f"`{norm_src(a)[:100]}` rounds by {sorted(got)} instead of {want}: for a bound with a fractional part "
                        f"({'negative, ' if want == 'floor' else ''}e.g. {'-1.5' if want == 'floor' else '1.5'}) the box ends inside the tree and the part beyond it is cut off",
                        stmt=f"r:round:{nm}", definite=True)
    # a per-axis triple built from the components of another per-axis triple: component k comes from component k
    for d in (t, g):
        triples = {}
        for a in own_nodes(d):
            if isinstance(a, ast.Assign) and isinstance(a.targets[0], ast.Tuple) and len(a.targets[0].elts) == 3 \
                    and all(isinstance(e, ast.Name) for e in a.targets[0].elts) and not isinstance(a.value, ast.Tuple):
                for k, e in enumerate(a.targets[0].elts):
                    triples[e.id] = (k, norm_src(a.value))
        for lit in own_nodes(d):
            if isinstance(lit, (ast.Tuple, ast.List)) and len(lit.elts) == 3 and isinstance(getattr(lit, "ctx", None), ast.Load):
                pos = []
                for e in lit.elts:
                    used = {triples[n.id] for n in ast.walk(e) if isinstance(n, ast.Name) and n.id in triples}
                    pos.append(used)
                if all(len(u) == 1 for u in pos):
                    ks = [next(iter(u)) for u in pos]
                    if len({src for _, src in ks}) == 1 and [k for k, _ in ks] != [0, 1, 2]:
                        col.bad("R-AXES", d.qualname, d.loc(lit), "per-axis quantities keep their axis",
                                f"`{norm_src(lit)}` builds an (x, y, z) triple from components {[k for k, _ in ks]} of `{ks[0][1]}`: "
                                f"an axis gets another axis' value, which differs as soon as the resolution is anisotropic in those axes", stmt="r:axis-mix", definite=True)


def _chan_axis(ctx, col):
    """R-CHANAXIS: in save_tiff the number of channels (`data.shape[-1]`) is read only after a 3-D input has been given its channel axis (CFG dominance)."""
    from .. import cfg as cfgmod
    repo = ctx.repo
    col.rule("R-CHANAXIS", "save_tiff reads the number of channels (`data.shape[-1]`) only after a channel-less (X, Y, Z) input has been given its channel axis: the statement that adds the "
             "axis dominates every such read on the CFG (read earlier, a gray stack with three slices is tagged RGB)", floor=1)
    d = repo.get_def(f"{IO}.save_tiff")
    g = cfgmod.build(d)
    adds = [n for n in own_nodes(d) if isinstance(n, ast.If) and "ndim" in norm_src(n.test) and any(isinstance(c, ast.Call) and (dotted(c.func) or "").rsplit(".", 1)[-1] in ("expand_dims", "reshape", "atleast_3d")
                                                                                                   or isinstance(c, ast.Subscript) and "None" in norm_src(c.slice) or "newaxis" in norm_src(c) for c in ast.walk(n))]
    if len(adds) != 1 or g.node_of(adds[0]) is None:
        col.unresolved("R-CHANAXIS", d.qualname, d.loc(), "the channel count is read after the channel axis exists", "no single `if data.ndim == 3: <add axis>` statement found", stmt="chanaxis")
        return
    anchor = g.node_of(adds[0])
    from ..rules.sortedness import _stmt_of
    n = 0
    for e in own_nodes(d):
        if isinstance(e, ast.Subscript) and isinstance(e.value, ast.Attribute) and e.value.attr == "shape" and norm_src(e.slice) in ("-1", "3") and any(x is e for x in ast.walk(d.node)):
            if any(x is e for x in ast.walk(adds[0])):
                continue
            st = _stmt_of(d, e)
            node = g.node_of(st) if st is not None else None
            if node is None:
                continue
            n += 1
            col.check(g.dominates(anchor, node), "R-CHANAXIS", d.qualname, d.loc(e), "the channel count is read after the channel axis exists", norm_src(st)[:70],
                      f"`{norm_src(st)[:80]}` reads `{norm_src(e)}` on a path that has not yet passed `{norm_src(adds[0].test)}`: for a 3-D (X, Y, Z) input the last axis is still Z there, so a gray "
                      f"stack with exactly three slices is taken for RGB (tifffile then refuses to write it)", stmt=f"chanaxis:{norm_src(st)[:24]}", definite=True)
    if not n:
        col.unresolved("R-CHANAXIS", d.qualname, d.loc(), "the channel count is read after the channel axis exists", "no read of the last axis length found", stmt="chanaxis")


def dispatch(ctx, col):
    """read_imgs: the reader is chosen by the file extension, the requested dtype reaches it."""
    repo = ctx.repo
    d = repo.get_def(f"{IO}.read_imgs")
    col.text_group("R-AXES", d.qualname, d, [
        ("the default dtype is float32, a requested one is kept", ["kwargs.setdefault('dtype', np.float32)"], "rd:dtype"),
        ("a missing file is an error", ["if not os.path.exists(fname): raise ValueError(_any)"], "rd:exists"),
        ("the reader is chosen by the extension; options (dtype) are forwarded",
         ["match os.path.splitext(fname)[-1]:\n    case '.tif' | '.tiff':\n        return TiffImageStack(fname, **kwargs)\n    case '.nrrd':\n        return NrrdImageStack(fname, **kwargs)\n"
          "    case '.v3dpbd':\n        return V3dpbdImageStack(fname, **kwargs)\n    case '.v3draw':\n        return V3drawImageStack(fname, **kwargs)\n"
          "    case '.npy':\n        return NDArrayImageStack(np.load(fname), **kwargs)"], "rd:match"),
        ("anything else is rejected", ["raise ValueError('unsupported image stack')"], "rd:else")], fixed=("fname", "kwargs"))
    col.guard(_chan_axis, ctx, col)
    from ..rules import outarg as _outarg
    _outarg.run(ctx, col, ('swcgeom.images.io', 'swcgeom.images.augmentation', 'swcgeom.images.folder', 'swcgeom.transforms.image_stack', 'swcgeom.transforms.images'))
    # sibling agreement: every reader the dispatcher can return receives the requested dtype
    col.rule("R-DISPATCH", "every reader read_imgs can return is given the requested dtype: each returned `<X>ImageStack(...)` call carries `dtype=` or the `**kwargs` in which the "
             "function keeps it (kwargs.setdefault('dtype', ...)); a branch without it returns the stored values unconverted and unscaled", floor=1)
    named = "dtype" in d.params
    kw_holds = any(isinstance(c, ast.Call) and norm_src(c.func) == "kwargs.setdefault" and c.args and isinstance(c.args[0], ast.Constant) and c.args[0].value == "dtype" for c in own_nodes(d)) \
        or any(isinstance(a, ast.Assign) and norm_src(a.targets[0]) in ("kwargs['dtype']", 'kwargs["dtype"]') for a in own_nodes(d))
    rets = [r for r in own_nodes(d) if isinstance(r, ast.Return) and isinstance(r.value, ast.Call) and (dotted(r.value.func) or "").endswith("ImageStack")]
    if not (named or kw_holds) or not rets:
        col.unresolved("R-DISPATCH", d.qualname, d.loc(), "the requested dtype reaches every reader", "neither a `dtype` parameter nor kwargs.setdefault('dtype', ...) found, or no reader is returned",
                       stmt="dispatch")
    for r in rets:
        c = r.value
        has_kw = any(k.arg == "dtype" for k in c.keywords)
        has_star = any(k.arg is None and isinstance(k.value, ast.Name) and k.value.id == "kwargs" for k in c.keywords)
        ok_ = has_kw or (kw_holds and has_star)
        if named or kw_holds:
            col.check(ok_, "R-DISPATCH", d.qualname, d.loc(r), f"{norm_src(c.func)} receives the requested dtype", norm_src(c)[:80],
                      f"`{norm_src(c)[:90]}` passes neither `dtype=` nor a `**kwargs` that holds it: a stack stored in this format comes back in its stored dtype, "
                      f"unscaled (a uint8 file read with the default dtype stays 0..255 uint8 instead of float32 in [0, 1])", stmt=f"dispatch:{norm_src(c.func)}", definite=True)
    t = repo.get_def(f"{IO}.TiffImageStack.__init__")
    col.text_group("R-AXES", t.qualname, t, [
        ("the file is opened and its first series decoded on every construction", ["with tifffile.TiffFile(fname, **kwargs) as f:\n    s = f.series[0]\n    imgs, axes = s.asarray(), s.axes"], "rd:tiff"),
        ("the array goes to the base class with the requested dtype", ["super().__init__(imgs, dtype=dtype)"], "rd:base")], fixed=("fname", "kwargs", "dtype", "tifffile"))
