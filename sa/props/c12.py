"""C12 -- geometric transforms apply the stated affine map about the stated centre."""

from __future__ import annotations

import ast

from .. import own
from ..model import AnalysisError, dotted, norm_src, own_nodes
from ..rules import xyz
from ..shape import UNKNOWN, Shapes
from ..util import kwarg
from .c03 import analyse, ndata_store_keys

UT = "swcgeom.utils.transforms"
GEO = "swcgeom.transforms.geometry"


def run(ctx, col, tier):
    repo = ctx.repo
    col.rule("R-SINCOS", "a rotation builder takes the sine from the angle, never from the cosine (`sqrt(1 - cos^2)` loses the sign; with copysign it is "
             "wrong beyond a half turn): zero expected, positive examples kept", floor=1)
    from ..rules import sinsqrt as _sinsqrt
    _sinsqrt.check(ctx, col, "R-SINCOS", ("swcgeom.utils.transforms", "swcgeom.transforms.geometry"))
    col.rule("R-SHAPE", "every matrix builder returns shape (4,4) and contains no definite "
             "broadcasting / matrix-product shape error", floor=6, exhaustive=True)
    col.rule("R-CONJ", "centre conjugation: with the vector convention read from `apply`, the "
             "factor applied first is the translation by -centre and the last is +centre; the "
             "centre is the root's position; 'origin' leaves the matrix unchanged", floor=4, shape=True)
    col.rule("R-MATLAYOUT", "entries of the literal matrices, abstracted to {0, 1, cos, +-sin, "
             "+-param}, equal the definition (translation column, scale diagonal, right-handed "
             "axis rotations, Rodrigues skew matrix and formula)", floor=70, exhaustive=True, shape=True)
    col.rule("R-APPLY", "apply: homogeneous coordinates in x,y,z,w order times the matrix, "
             "perspective divide by w, rows 0,1,2 written to x,y,z of a copy (one family), nothing "
             "else stored", floor=5, shape=True)
    col.rule("R-WIRE", "each transform class passes its own parameters to its own builder "
             "(Translate->translate3d, Scale->scale3d, RotateX->rotate3d_x, ...)", floor=7, shape=True)
    col.rule("R-STATE", "applying a transform leaves the transform object unchanged: no method other than __init__ "
             "assigns to self or mutates a container held by self without undoing it (stale removal lists, "
             "a matrix conjugated twice, a cached array shared between results); zero expected, positive examples kept", floor=1)
    col.rule("R-PURE", "inputs untouched, result fresh", floor=3)
    col.not_decided += ["distance preservation and inverse round trip as numeric statements",
                        "angle values", "unit-length requirement on the Rodrigues axis"]

    from ..rules import stateless
    col.guard(stateless.check, ctx, col, "R-STATE", ("swcgeom.transforms.geometry", "swcgeom.transforms.base"))
    from ..rules import ignoredparam
    ignoredparam.run(ctx, col, ('swcgeom.transforms.geometry', 'swcgeom.utils.transforms', 'swcgeom.transforms.base'))
    from ..rules import smalllints
    smalllints.run_falsy(ctx, col, ('swcgeom.transforms.geometry', 'swcgeom.utils.transforms'))
    from ..rules import colname as _colname
    _colname.run(ctx, col, ('swcgeom.transforms.geometry',))
    col.guard(anchored, ctx, col)
    col.guard(shapes, ctx, col)
    col.guard(conj, ctx, col)
    col.guard(layout, ctx, col)
    col.guard(apply_rule, ctx, col)
    col.guard(wiring, ctx, col)
    for cq, q in ((f"{GEO}.AffineTransform", f"{GEO}.AffineTransform.__call__"),
                  (f"{GEO}.TranslateOrigin", f"{GEO}.TranslateOrigin.__call__"),
                  (f"{GEO}.Scale", f"{GEO}.AffineTransform.__call__")):
        d = repo.get_def(q)
        I, r, _ = analyse(ctx, d, repo.get_class(cq))
        fresh = isinstance(r, own.Obj) and not own.storage_owners(r)
        col.check(not I.effects and fresh, "R-PURE", cq, d.loc(), "input untouched, result fresh", "",
                  (f"write through an input alias at {I.effects[0].where()}" if I.effects else "result shares storage"),
                  stmt="pure")


# ---------------------------------------------------------------------- R-SHAPE
BUILDERS = ["scale3d", "translate3d", "rotate3d", "rotate3d_x", "rotate3d_y", "rotate3d_z"]


def shapes(ctx, col):
    repo = ctx.repo
    for b in BUILDERS:
        d = repo.get_def(f"{UT}.{b}")
        S = Shapes(ctx, d).run()
        if S.errors:
            e = S.errors[0]
            col.bad("R-SHAPE", d.qualname, d.loc(e.node), f"{b} is shape-consistent",
                    f"{e.msg} -- the builder raises for every argument", stmt="shape-error",
                    facts={"env": {k: str(v) for k, v in S.env.items()}})
            continue
        rs = [s for _, s in S.returns]
        if not rs or any(s == UNKNOWN for s in rs):
            # returned name assigned by slices into an identity(4)?
            col.unresolved("R-SHAPE", d.qualname, d.loc(), f"{b} returns (4,4)", f"return shape {rs}",
                           stmt="shape")
            continue
        col.check(all(tuple(s) == (4, 4) for s in rs), "R-SHAPE", d.qualname, d.loc(S.returns[0][0]),
                  f"{b} returns (4,4)", str(rs), f"returns shape {rs}", stmt="shape")


# ---------------------------------------------------------------------- R-CONJ
def product_factors(e: ast.AST):
    """Flatten A.dot(B).dot(C) / A @ B @ C / np.dot(A, B) / np.linalg.multi_dot([..]) to [A, B, C]."""
    if isinstance(e, ast.BinOp) and isinstance(e.op, ast.MatMult):
        return product_factors(e.left) + product_factors(e.right)
    if isinstance(e, ast.Call):
        f = dotted(e.func) or ""
        if isinstance(e.func, ast.Attribute) and e.func.attr == "dot" and len(e.args) == 1 \
                and not f.startswith(("np.", "numpy.")):
            return product_factors(e.func.value) + product_factors(e.args[0])
        if f.split(".")[-1] in ("dot", "matmul") and len(e.args) == 2:
            return product_factors(e.args[0]) + product_factors(e.args[1])
        if f.endswith("multi_dot") and e.args and isinstance(e.args[0], (ast.List, ast.Tuple)):
            out = []
            for x in e.args[0].elts:
                out += product_factors(x)
            return out
    return [e]


def classify_factor(e: ast.AST, centre: str):
    if isinstance(e, ast.Call) and (dotted(e.func) or "").split(".")[-1] == "translate3d" and len(e.args) == 3:
        signs = []
        for i, a in enumerate(e.args):
            neg = isinstance(a, ast.UnaryOp) and isinstance(a.op, ast.USub)
            core = a.operand if neg else a
            if norm_src(core) != f"{centre}[{i}]":
                return f"T(?{norm_src(a)})"
            signs.append("-" if neg else "+")
        if len(set(signs)) == 1:
            return f"T{signs[0]}"
        return "T(mixed signs)"
    if norm_src(e) in ("self.tm", "tm"):
        return "M"
    return f"?{norm_src(e)[:30]}"


def vector_convention(ctx):
    """'column' (p' = M p, rightmost factor first) or 'row' from AffineTransform.apply."""
    d = ctx.repo.get_def(f"{GEO}.AffineTransform.apply")
    for n in own_nodes(d):
        if isinstance(n, ast.Call) and isinstance(n.func, ast.Attribute) and n.func.attr == "dot" and n.args:
            recv, arg = norm_src(n.func.value), norm_src(n.args[0])
            if "xyzw()" in recv and arg == "tm.T":
                return "column", n
            if "xyzw()" in recv and arg == "tm":
                return "row", n
            if recv == "tm" and "xyzw()" in arg and arg.endswith(".T"):
                return "column", n
        if isinstance(n, ast.BinOp) and isinstance(n.op, ast.MatMult):
            l, r = norm_src(n.left), norm_src(n.right)
            if "xyzw()" in l and r == "tm.T":
                return "column", n
            if "xyzw()" in l and r == "tm":
                return "row", n
            if l == "tm" and "xyzw()" in r:
                return "column", n
    return None, None


def conj(ctx, col):
    repo = ctx.repo
    d = repo.get_def(f"{GEO}.AffineTransform.__call__")
    conv, site = vector_convention(ctx)
    ap = repo.get_def(f"{GEO}.AffineTransform.apply")
    if conv is None:
        col.unresolved("R-CONJ", ap.qualname, ap.loc(), "vector convention of apply", "cannot read it")
        return
    col.ok("R-CONJ", ap.qualname, ap.loc(site), "vector convention of apply",
           f"{conv} vectors (`{norm_src(site)[:50]}`): the {'rightmost' if conv == 'column' else 'leftmost'} factor of a product acts first",
           stmt="convention")
    m = [n for n in own_nodes(d) if isinstance(n, ast.Match)]
    if len(m) != 1 or norm_src(m[0].subject) != "self.center":
        raise AnalysisError("anchor-vanished: `match self.center` in AffineTransform.__call__")
    arms = {}
    for c in m[0].cases:
        pats = []
        for p in ([c.pattern] if not isinstance(c.pattern, ast.MatchOr) else c.pattern.patterns):
            if isinstance(p, ast.MatchValue) and isinstance(p.value, ast.Constant):
                pats.append(p.value.value)
            elif isinstance(p, ast.MatchAs) and p.pattern is None:
                pats.append("_")
        arms[tuple(pats)] = c
    root_arm = next((c for k, c in arms.items() if "root" in k), None)
    dflt = next((c for k, c in arms.items() if "_" in k), None)
    col.check(root_arm is not None and "soma" in next(k for k in arms if "root" in k) and dflt is not None,
              "R-CONJ", d.qualname, d.loc(m[0]), "centre modes: 'root'/'soma' conjugate, anything else (origin) does not",
              str(list(arms)), f"arms are {list(arms)}", stmt="arms")
    if root_arm is None:
        return
    src = {norm_src(s.targets[0]): s for s in root_arm.body if isinstance(s, ast.Assign)}
    tm = src.get("tm") or src.get("self.tm")
    # applying a transform must not change the transform object (it is applied to many trees)
    stores = [n for n in own_nodes(d) if isinstance(n, (ast.Assign, ast.AugAssign, ast.AnnAssign))
              for t in (n.targets if isinstance(n, ast.Assign) else [n.target])
              if isinstance(t, (ast.Attribute, ast.Subscript)) and (dotted(t) or norm_src(t)).startswith("self.")]
    col.check(not stores, "R-CONJ", d.qualname, d.loc(stores[0]) if stores else d.loc(),
              "applying the transform leaves the transform object unchanged (the stored matrix is only read)", "",
              (f"`{norm_src(stores[0])[:80]}` overwrites the transform's own state in __call__: the next tree is transformed with a "
               f"matrix already conjugated about the previous tree's root") if stores else "", stmt="self-store", definite=True)
    xyz_a = src.get("xyz")
    idx_a = src.get("idx")
    ok = idx_a is not None and norm_src(idx_a.value) == "np.nonzero(x.ndata[x.names.pid] == -1)[0][0].item()" \
        and xyz_a is not None and norm_src(xyz_a.value) == "x.xyz()[idx]"
    col.check(ok, "R-CONJ", d.qualname, d.loc(xyz_a) if xyz_a is not None else d.loc(), "the centre is the position of the root (first node whose parent is -1)",
              "", "centre is not x.xyz()[index of the first pid == -1]", stmt="centre")
    if tm is None:
        col.unresolved("R-CONJ", d.qualname, d.loc(root_arm.body[0]), "conjugation", "no `tm = ...` in the root arm")
        return
    # by value first: the statements of the arm are evaluated over a symbolic stored matrix M = [[A, t], [0, 1]] and a symbolic centre c;
    # the matrix handed to `apply` must be T(c) . M . T(-c) entry by entry (exact polynomials)
    if conv == "column":
        from .. import matsym
        try:
            ev = matsym.Eval({"self.tm": matsym.affine_symbol(), "xyz": matsym.Vec([matsym.S("c0"), matsym.S("c1"), matsym.S("c2")])})
            body_ = [s_ for s_ in root_arm.body if not (isinstance(s_, ast.Assign) and len(s_.targets) == 1 and norm_src(s_.targets[0]) in ("idx", "xyz"))]
            ev.run(body_)
            got_m = ev.env.get("tm")
            cvec = [matsym.S("c0"), matsym.S("c1"), matsym.S("c2")]
            want_m = matsym.matmul(matsym.matmul(matsym.translate(cvec), matsym.affine_symbol()), matsym.translate([x_ * matsym.C(-1) for x_ in cvec]))
            if isinstance(got_m, matsym.Mat) and got_m.shape == (4, 4) and ok:
                same_m = matsym.same(got_m, want_m)
                diff = []
                if not same_m:
                    for i_ in range(4):
                        for j_ in range(4):
                            if not got_m.rows[i_][j_].same(want_m.rows[i_][j_]):
                                diff.append(f"[{i_}][{j_}] = {got_m.rows[i_][j_]} instead of {want_m.rows[i_][j_]}")
                col.check(same_m, "R-CONJ", d.qualname, d.loc(tm), "the matrix applied about the root is T(+c) . M . T(-c), entry by entry (symbolic M and c)",
                          "16 entries equal as polynomials", "the matrix built for centre = root is not the conjugate of the stored one: " + "; ".join(diff[:3])
                          + " -- the stated map is not applied about the root (the centre moves, or a translation the matrix carries is lost)", stmt="conjugation", definite=True)
                if dflt is not None:
                    dsrc = [norm_src(s_) for s_ in dflt.body]
                    col.check(dsrc == ["tm = self.tm"], "R-CONJ", d.qualname, d.loc(dflt), "centre = origin applies the stored matrix as it is", str(dsrc), f"default arm is {dsrc}", stmt="origin")
                return
        except matsym.Unsupported:
            pass
    factors = product_factors(tm.value)
    kinds = [classify_factor(f, "xyz") for f in factors]
    want = ["T+", "M", "T-"] if conv == "column" else ["T-", "M", "T+"]
    recognised = len(kinds) == 3 and all(k in ("T+", "T-", "M") or k.startswith("T(mixed") for k in kinds)
    first = kinds[-1] if conv == "column" else kinds[0]
    col.judge(recognised, kinds == want, "R-CONJ", d.qualname, d.loc(tm),
              "conjugation order T(+c) . M . T(-c) in application order",
              f"product {kinds} with {conv} vectors",
              f"product is {' . '.join(kinds)}; with {conv} vectors the factor applied first is {first}, "
              f"so points are moved by +centre before the map and by -centre after it: the centre is not fixed "
              f"(expected {' . '.join(want)})", f"factors {kinds} not recognised", stmt="conjugation", definite=True)
    if dflt is not None:
        ok = [norm_src(s) for s in dflt.body] == ["tm = self.tm"]
        col.check(ok, "R-CONJ", d.qualname, d.loc(dflt.body[0]), "origin mode uses the matrix unchanged", "",
                  "default arm is not `tm = self.tm`", stmt="origin")
    rets = [n for n in own_nodes(d) if isinstance(n, ast.Return)]
    ok = len(rets) == 1 and norm_src(rets[0].value) == "self.apply(x, tm)"
    col.check(ok, "R-CONJ", d.qualname, d.loc(rets[0]) if rets else d.loc(), "the conjugated matrix is applied to the input", "",
              "return is not self.apply(x, tm)", stmt="applied")


# ---------------------------------------------------------------------- R-MATLAYOUT
def cell_token(e: ast.AST, env: dict) -> str:
    """Abstract a matrix entry."""
    if isinstance(e, ast.Name) and e.id in env:
        return cell_token(env[e.id], env)
    if isinstance(e, ast.Constant) and isinstance(e.value, (int, float)):
        return str(int(e.value)) if float(e.value).is_integer() else str(e.value)
    if isinstance(e, ast.UnaryOp) and isinstance(e.op, ast.USub):
        t = cell_token(e.operand, env)
        return t[1:] if t.startswith("-") else ("0" if t == "0" else "-" + t)
    if isinstance(e, ast.Call):
        f = (dotted(e.func) or "").split(".")[-1]
        if f in ("cos", "sin") and len(e.args) == 1 and isinstance(e.args[0], ast.Name):
            return f"{f}({e.args[0].id})"
    if isinstance(e, ast.Name):
        return e.id
    return "?" + norm_src(e)[:20]


def literal_matrix(d, name=None):
    """The nested-list literal (returned, or assigned to `name`) -> rows of cell exprs, local env."""
    env = {}
    for n in own_nodes(d):
        if isinstance(n, ast.Assign) and isinstance(n.targets[0], ast.Name) and \
                isinstance(n.value, (ast.Call, ast.Name, ast.Constant, ast.UnaryOp)):
            env[n.targets[0].id] = n.value
        elif isinstance(n, ast.Assign) and isinstance(n.targets[0], ast.Tuple) and isinstance(n.value, ast.Tuple) \
                and len(n.targets[0].elts) == len(n.value.elts):
            for t, v in zip(n.targets[0].elts, n.value.elts):
                if isinstance(t, ast.Name):
                    env[t.id] = v
    target = None
    for n in own_nodes(d):
        if name is None and isinstance(n, ast.Return):
            target = n.value
        if name is not None and isinstance(n, ast.Assign) and norm_src(n.targets[0]) == name:
            target = n.value
    if isinstance(target, ast.Call) and (dotted(target.func) or "").endswith("array") and target.args:
        target = target.args[0]
    if isinstance(target, ast.List) and all(isinstance(r, ast.List) for r in target.elts):
        return [[c for c in r.elts] for r in target.elts], env
    return None, env


ORACLE = {
    "translate3d": lambda p: [["1", "0", "0", p[0]], ["0", "1", "0", p[1]], ["0", "0", "1", p[2]], ["0", "0", "0", "1"]],
    "scale3d": lambda p: [[p[0], "0", "0", "0"], ["0", p[1], "0", "0"], ["0", "0", p[2], "0"], ["0", "0", "0", "1"]],
    "rotate3d_x": lambda p: [["1", "0", "0", "0"], ["0", f"cos({p[0]})", f"-sin({p[0]})", "0"],
                             ["0", f"sin({p[0]})", f"cos({p[0]})", "0"], ["0", "0", "0", "1"]],
    "rotate3d_y": lambda p: [[f"cos({p[0]})", "0", f"sin({p[0]})", "0"], ["0", "1", "0", "0"],
                             [f"-sin({p[0]})", "0", f"cos({p[0]})", "0"], ["0", "0", "0", "1"]],
    "rotate3d_z": lambda p: [[f"cos({p[0]})", f"-sin({p[0]})", "0", "0"], [f"sin({p[0]})", f"cos({p[0]})", "0", "0"],
                             ["0", "0", "1", "0"], ["0", "0", "0", "1"]],
}


def layout(ctx, col):
    repo = ctx.repo
    for b, oracle in ORACLE.items():
        d = repo.get_def(f"{UT}.{b}")
        rows, env = literal_matrix(d)
        if rows is None:
            col.unresolved("R-MATLAYOUT", d.qualname, d.loc(), f"{b} literal", "matrix is not a nested list literal")
            continue
        want = oracle(d.params)
        for i in range(4):
            for j in range(4):
                got = cell_token(rows[i][j], env) if i < len(rows) and j < len(rows[i]) else "<missing>"
                w = want[i][j]
                import re as _re
                pat = "|".join(_re.escape(p) for p in d.params) or "x^"
                known = bool(_re.fullmatch(rf"-?(\d+(\.\d+)?|{pat}|(cos|sin)\(({pat})\))", got))
                if got.startswith("?") or not known:
                    col.unresolved("R-MATLAYOUT", d.qualname, d.loc(rows[i][j]), f"{b}[{i}][{j}]", f"entry `{got}` is not in the abstraction "
                                   "{0, 1, +-parameter, +-cos(parameter), +-sin(parameter)}", stmt=f"{i},{j}")
                else:
                    col.check(got == w, "R-MATLAYOUT", d.qualname, d.loc(rows[i][j]), f"{b}[{i}][{j}]", got,
                              f"entry is {got}, the definition has {w}", stmt=f"{i},{j}", definite=True)
    # Rodrigues
    d = repo.get_def(f"{UT}.rotate3d")
    rows, env = literal_matrix(d, "N")
    comps = None
    for n in own_nodes(d):
        if isinstance(n, ast.Assign) and isinstance(n.targets[0], ast.Tuple) and len(n.targets[0].elts) == 3:
            comps = [e.id for e in n.targets[0].elts]
    if rows is None or comps is None:
        col.unresolved("R-MATLAYOUT", d.qualname, d.loc(), "skew matrix", "N literal / axis components not found")
    else:
        nx, ny, nz = comps
        want = [["0", f"-{nz}", ny], [nz, "0", f"-{nx}"], [f"-{ny}", nx, "0"]]
        for i in range(3):
            for j in range(3):
                got = cell_token(rows[i][j], {}) if i < len(rows) and j < len(rows[i]) else "<missing>"
                known = got in ("0", nx, ny, nz, f"-{nx}", f"-{ny}", f"-{nz}")
                if not known:
                    col.unresolved("R-MATLAYOUT", d.qualname, d.loc(rows[i][j]), f"skew[{i}][{j}]", f"entry `{got}` not in {{0, +-axis component}}", stmt=f"N{i},{j}")
                else:
                    col.check(got == want[i][j], "R-MATLAYOUT", d.qualname, d.loc(rows[i][j]), f"skew[{i}][{j}]", got,
                              f"entry is {got}, the cross-product matrix has {want[i][j]}", stmt=f"N{i},{j}", definite=True)
    # formula: cos*I + (1-cos)*n n^T + sin*N   (three terms, each recognised)
    terms = []

    def signed(e, sign="+"):
        if isinstance(e, ast.BinOp) and isinstance(e.op, (ast.Add, ast.Sub)):
            flip = {"+": "-", "-": "+"}
            return signed(e.left, sign) + signed(e.right, sign if isinstance(e.op, ast.Add) else flip[sign])
        return [(sign, e)]
    for n in own_nodes(d):
        if isinstance(n, ast.BinOp) and isinstance(n.op, (ast.Add, ast.Sub)) and not isinstance(ctx.repo.parent(n), ast.BinOp):
            st = signed(n)
            if len(st) > len(terms):
                terms = st
    srcs = [("" if sg == "+" else "-") + norm_src(t) for sg, t in terms]
    terms = [t for _, t in terms]
    th = d.params[1]
    has_cosI = any(s.startswith(f"np.cos({th}) * np.identity(") or s.startswith(f"np.cos({th}) * np.eye(") for s in srcs)
    has_outer = any(s.startswith(f"(1 - np.cos({th})) * ") and "[:, None]" in s for s in srcs)
    has_sinN = any(s == f"np.sin({th}) * N" for s in srcs)
    col.judge(len(terms) == 3, has_cosI and has_outer and has_sinN, "R-MATLAYOUT", d.qualname, d.loc(terms[0]) if terms else d.loc(),
              "Rodrigues: cos(t) I + (1 - cos(t)) n n^T + sin(t) N", "; ".join(srcs),
              f"terms {srcs} are not the three Rodrigues terms with these signs", stmt="rodrigues")


# ---------------------------------------------------------------------- R-APPLY
def apply_rule(ctx, col):
    repo = ctx.repo
    d = repo.get_def(f"{GEO}.AffineTransform.apply")
    stores = ndata_store_keys(ctx, d)
    keys = set()
    for s, k in stores:
        keys |= (k or {"?"})
    col.check(keys == {"x", "y", "z"}, "R-APPLY", d.qualname, d.loc(), "stores exactly x, y, z", str(sorted(keys)),
              f"stores to {sorted(keys)}", stmt="writeset")
    fam = [s for s, k in stores]
    # x -> 0, y -> 1, z -> 2
    ok, detail = xyz.family(fam, ints=True)
    col.judge(ok is not None, bool(ok), "R-APPLY", d.qualname, d.loc(fam[0]) if fam else d.loc(),
              "y.ndata[x,y,z] = rows 0,1,2 of the transformed coordinates (one family)", detail, detail, detail, stmt="family")
    xs = [s for s in fam if xyz.axis_of(s) == "x"]
    ok = len(xs) == 1 and norm_src(xs[0]) == "y.ndata[x.names.x] = xyzw[0]"
    col.check(ok, "R-APPLY", d.qualname, d.loc(xs[0]) if xs else d.loc(), "x takes row 0", norm_src(xs[0]) if xs else "",
              f"`{norm_src(xs[0]) if xs else None}`", stmt="x-row0")
    div = [n for n in own_nodes(d) if isinstance(n, ast.AugAssign) and isinstance(n.op, ast.Div)]
    ok = len(div) == 1 and norm_src(div[0]) == "xyzw /= xyzw[3]"
    col.check(ok, "R-APPLY", d.qualname, d.loc(div[0]) if div else d.loc(), "perspective divide by the w row", "",
              "no `xyzw /= xyzw[3]`", stmt="divide")
    w = repo.get_def("swcgeom.core.swc.SWCLike.xyzw")
    rets = [n for n in own_nodes(w) if isinstance(n, ast.Return)]
    ok = len(rets) == 1 and norm_src(rets[0].value) == "np.stack([self.x(), self.y(), self.z(), w], axis=1)" and \
        any(isinstance(n, ast.Assign) and norm_src(n) == "w = np.ones_like(self.x())" for n in own_nodes(w))
    col.check(ok, "R-APPLY", w.qualname, w.loc(), "homogeneous coordinates are (x, y, z, 1) per node", "",
              "xyzw() is not stack([x, y, z, ones], axis=1)", stmt="xyzw")
    x3 = repo.get_def("swcgeom.core.swc.SWCLike.xyz")
    rets = [n for n in own_nodes(x3) if isinstance(n, ast.Return)]
    ok = len(rets) == 1 and norm_src(rets[0].value) == "np.stack([self.x(), self.y(), self.z()], axis=1)"
    col.check(ok, "R-APPLY", x3.qualname, x3.loc(), "xyz() is (x, y, z) per node", "", "xyz() is not stack([x, y, z], axis=1)",
              stmt="xyz")


# ---------------------------------------------------------------------- R-WIRE
def wiring(ctx, col):
    repo = ctx.repo
    table = {
        "Translate": ("translate3d", ["tx", "ty", "tz"]),
        "Scale": ("scale3d", ["sx", "sy", "sz"]),
        "Rotate": ("rotate3d", ["n", "theta"]),
        "RotateX": ("rotate3d_x", ["theta"]),
        "RotateY": ("rotate3d_y", ["theta"]),
        "RotateZ": ("rotate3d_z", ["theta"]),
    }
    for cls, (builder, params) in table.items():
        d = repo.get_def(f"{GEO}.{cls}.__init__")
        sup = [n for n in own_nodes(d) if isinstance(n, ast.Call) and isinstance(n.func, ast.Attribute)
               and n.func.attr == "__init__" and isinstance(n.func.value, ast.Call)]
        ok = False
        txt = ""
        if len(sup) == 1 and sup[0].args:
            b = sup[0].args[0]
            txt = norm_src(b)
            ok = isinstance(b, ast.Call) and dotted(b.func) == builder and [norm_src(a) for a in b.args] == params
            if cls != "Translate":
                c = kwarg(sup[0], "center")
                ok = ok and c is not None and norm_src(c) == "center"
        col.check(ok, "R-WIRE", f"{GEO}.{cls}", d.loc(), f"{cls} builds its matrix with {builder}({', '.join(params)})",
                  txt, f"matrix is built by `{txt}`", stmt="builder")
    d = repo.get_def(f"{GEO}.TranslateOrigin.transform")
    src = {norm_src(s.targets[0]): s for s in own_nodes(d) if isinstance(s, ast.Assign)}
    tm = src.get("tm")
    ok = tm is not None and norm_src(tm.value) == "translate3d(-xyzw[pid, 0], -xyzw[pid, 1], -xyzw[pid, 2])" and \
        "pid" in src and norm_src(src["pid"].value) == "np.nonzero(x.ndata[x.names.pid] == -1)[0][0].item()" and \
        "xyzw" in src and norm_src(src["xyzw"].value) == "x.xyzw()"
    col.check(bool(ok), "R-WIRE", d.qualname, d.loc(), "TranslateOrigin translates by minus the root's coordinates (x,y,z in order)",
              norm_src(tm.value) if tm is not None else "", "translation is not by -(root x, y, z)", stmt="origin")


def anchored(ctx, col):
    """Statements that carry the clauses, matched three-way under one renaming per function."""
    repo = ctx.repo
    d = repo.get_def(f"{GEO}.AffineTransform.__call__")
    col.text_group("R-CONJ", d.qualname, d, [
        ("the centre is the root: the first node whose parent is -1 ...", ["idx = np.nonzero(x.ndata[x.names.pid] == -1)[0][0].item()"], "root-idx"),
        ("... and its position", ["xyz = x.xyz()[idx]"], "centre"),
        ("origin mode uses the matrix unchanged", ["tm = self.tm"], "origin"),
        ("the (conjugated) matrix is applied to the input", ["return self.apply(x, tm)"], "applied"),
    ], fixed=("x",))
    a = repo.get_def(f"{GEO}.AffineTransform.apply")
    col.text_group("R-APPLY", a.qualname, a, [
        ("homogeneous row vectors times the transposed matrix, transposed back: rows of the result are x, y, z, w", ["xyzw = x.xyzw().dot(tm.T).T", "xyzw = np.dot(x.xyzw(), tm.T).T"], "product"),
        ("perspective divide by the w row", ["xyzw /= xyzw[3]"], "divide"),
        ("works on a copy", ["y = x.copy()"], "copy"),
        ("x takes row 0", ["y.ndata[x.names.x] = xyzw[0]"], "x-row0"),
        ("y takes row 1", ["y.ndata[x.names.y] = xyzw[1]"], "y-row1"),
        ("z takes row 2", ["y.ndata[x.names.z] = xyzw[2]"], "z-row2"),
        ("the copy is returned", ["return y"], "ret"),
    ], fixed=("x", "tm"))
    w = repo.get_def("swcgeom.core.swc.SWCLike.xyzw")
    col.text_group("R-APPLY", w.qualname, w, [
        ("homogeneous coordinates are (x, y, z, 1) per node", ["return np.stack([self.x(), self.y(), self.z(), w], axis=1)"], "xyzw"),
        ("w = 1", ["w = np.ones_like(self.x())"], "w")])
    x3 = repo.get_def("swcgeom.core.swc.SWCLike.xyz")
    col.text_group("R-APPLY", x3.qualname, x3, [("xyz() is (x, y, z) per node", ["return np.stack([self.x(), self.y(), self.z()], axis=1)"], "xyz")])
    table = {"Translate": "super().__init__(translate3d(tx, ty, tz), **kwargs)",
             "Scale": "super().__init__(scale3d(sx, sy, sz), center=center, **kwargs)",
             "Rotate": "super().__init__(rotate3d(n, theta), center=center, fmt=fmt, **kwargs)",
             "RotateX": "super().__init__(rotate3d_x(theta), center=center, fmt=_any, **kwargs)",
             "RotateY": "super().__init__(rotate3d_y(theta), center=center, fmt=_any, **kwargs)",
             "RotateZ": "super().__init__(rotate3d_z(theta), center=center, fmt=_any, **kwargs)"}
    for cls, form in table.items():
        i = repo.get_def(f"{GEO}.{cls}.__init__")
        alts = [form, form.replace(", fmt=_any", "").replace(", fmt=fmt", ""), form.replace("fmt=fmt", "fmt=_any")]
        col.text_group("R-WIRE", f"{GEO}.{cls}", i, [(f"{cls} passes its own parameters to its own builder (and the centre mode on)", alts, "builder")],
                       fixed=tuple(i.params) + ("translate3d", "scale3d", "rotate3d", "rotate3d_x", "rotate3d_y", "rotate3d_z", "kwargs", "center"))
    t = repo.get_def(f"{GEO}.TranslateOrigin.transform")
    col.text_group("R-WIRE", t.qualname, t, [
        ("the root is the first node whose parent is -1 (not simply row 0)", ["pid = np.nonzero(x.ndata[x.names.pid] == -1)[0][0].item()"], "root"),
        ("homogeneous coordinates of the input", ["xyzw = x.xyzw()"], "xyzw"),
        ("translation by minus the root's coordinates, x, y, z in order", ["tm = translate3d(-xyzw[pid, 0], -xyzw[pid, 1], -xyzw[pid, 2])"], "origin"),
        ("applied", ["return AffineTransform.apply(x, tm)"], "apply"),
    ], fixed=("x", "translate3d", "AffineTransform"))
    # the root's position must be looked up by the root marker: row 0 is the root only for some numberings
    for q in (f"{GEO}.TranslateOrigin.transform", f"{GEO}.AffineTransform.__call__"):
        dd = repo.get_def(q)
        uses_marker = any(isinstance(c, ast.Compare) and "pid" in norm_src(c) and "-1" in norm_src(c) for c in own_nodes(dd))
        row0 = [s for s in own_nodes(dd) if isinstance(s, ast.Subscript) and norm_src(s.value) in ("x.xyz()", "x.xyzw()") and norm_src(s.slice) == "0"]
        if row0 and not uses_marker:
            col.bad("R-WIRE", q, dd.loc(row0[0]), "the centre / origin is the root, found by its parent marker -1",
                    f"`{norm_src(row0[0])}` takes row 0 as the root: a tree whose root is stored in another row is centred on the wrong node",
                    stmt="root-row0", definite=True)


    # every result of the general rotation builder depends on the DIRECTION of the axis: a return path on which
    # the axis enters only through abs() / count_nonzero() / != 0 turns -n and +n into the same rotation
    r3 = repo.get_def(f"{UT}.rotate3d")
    axis_p = r3.params[0]
    KILL = ("abs", "absolute", "fabs", "count_nonzero", "nonzero", "flatnonzero", "argwhere", "square", "argmax", "argmin", "any", "all")
    assigns = [a for a in own_nodes(r3) if isinstance(a, ast.Assign)]
    for ret in [x for x in own_nodes(r3) if isinstance(x, ast.Return) and x.value is not None]:
        exprs = [ret.value]
        seen = set()
        frontier = {n.id for n in ast.walk(ret.value) if isinstance(n, ast.Name)}
        while frontier:
            nm = frontier.pop()
            if nm in seen:
                continue
            seen.add(nm)
            for a in assigns:
                if a.lineno < ret.lineno and any(isinstance(t, ast.Name) and t.id == nm for tt in a.targets for t in ast.walk(tt)):
                    if nm != axis_p:  # `n = np.asarray(n)`: a re-binding of the axis itself, not a use
                        exprs.append(a.value)
                    frontier |= {n.id for n in ast.walk(a.value) if isinstance(n, ast.Name)}
        occ = []
        for e in exprs:
            for node in ast.walk(e):
                if isinstance(node, ast.Name) and node.id == axis_p:
                    killed = False
                    cur = repo.parent(node)
                    while cur is not None and cur is not r3.node and not isinstance(cur, ast.stmt):
                        if isinstance(cur, ast.Call) and (dotted(cur.func) or "").rsplit(".", 1)[-1] in KILL:
                            killed = True
                        if isinstance(cur, ast.Compare) and any(isinstance(c, ast.Constant) and c.value == 0 for c in [cur.left] + cur.comparators):
                            killed = True
                        cur = repo.parent(cur)
                    occ.append(killed)
        if occ and all(occ):
            col.bad("R-MATLAYOUT", r3.qualname, r3.loc(ret), "every result depends on the direction of the axis",
                    f"`{norm_src(ret)[:70]}` depends on the axis `{axis_p}` only through abs()/argmax()/count_nonzero(): a rotation about -n "
                    f"is the same as about +n on this path (it should be the inverse)", stmt="axis-sign", definite=True)
        elif occ:
            col.ok("R-MATLAYOUT", r3.qualname, r3.loc(ret), "every result depends on the direction of the axis", stmt="axis-sign")
