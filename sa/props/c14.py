"""C14 -- tree volume is the volume of the union of node spheres and connecting frusta."""

from __future__ import annotations

import ast
from itertools import product

from ..fold import Folder, Unfoldable
from ..model import AnalysisError, dotted, norm_src, own_nodes
from . import c13

MOD = "swcgeom.analysis.volume"
FN = f"{MOD}._get_volume_frustum_cone"

# atoms of the per-node inclusion-exclusion (S = this node's sphere, C = frustum to a child,
# K = that child's sphere, counted in the child's own visit)
TERMS = {
    "S": "sphere.get_volume()",
    "C": "sum((fc.get_volume() for fc in cones))",
    "S&C": "sum((sphere.intersect(fc).get_volume() for fc in cones))",
    "K&C": "sum((s.intersect(fc).get_volume() for s, fc in zip(children, cones)))",
    "K&S": "sum((s.intersect(sphere).get_volume() for s in children))",
    "CC-S": "sum((cones[i].intersect(cones[j]).subtract(sphere).get_volume() for i in range(len(cones)) for j in range(i + 1, len(cones))))",
}
ALT = {
    "K&S": ["sum((sphere.intersect(s).get_volume() for s in children))"],
    "S&C": ["sum((fc.intersect(sphere).get_volume() for fc in cones))"],
}


def run(ctx, col, tier):
    from ..rules import normaxis as _normaxis
    _normaxis.run(ctx, col, ('swcgeom.analysis.volume', 'swcgeom.utils.volumetric_object', 'swcgeom.utils.solid_geometry', 'swcgeom.analysis.features', 'swcgeom.analysis.lmeasure', 'swcgeom.analysis.sholl', 'swcgeom.core.tree', 'swcgeom.core.path', 'swcgeom.core.branch', 'swcgeom.transforms.branch', 'swcgeom.transforms.branch_tree'))
    from ..rules import smalllints as _small
    _small.run_atol(ctx, col, ('swcgeom.utils.solid_geometry', 'swcgeom.utils.volumetric_object', 'swcgeom.analysis.volume'))
    from ..rules import smalllints2 as _s2v
    _s2v.run_allpairs(ctx, col, ('swcgeom.analysis.volume', 'swcgeom.utils.volumetric_object'))
    _small.run_falsy(ctx, col, ('swcgeom.utils.solid_geometry', 'swcgeom.utils.volumetric_object', 'swcgeom.analysis.volume'))
    col.rule("R-GATE", "accuracy gating as a finite table: for every level 1..9 and every child "
             "count 0..3 the guards are folded and the multiset of signed terms added to the "
             "node's volume is compared with the definition (level 1: sphere; level 2: sphere + "
             "frusta; level >= 3: inclusion-exclusion); level 10 leaves for the sampling routine; "
             "named levels map into 3..9", floor=30, exhaustive=True)
    col.rule("R-INCLEXCL", "net coefficient of every intersection class at levels >= 3, under the "
             "premise that the lens of two neighbouring spheres lies inside their frustum: "
             "S:+1, C:+1, S&C:-1, K&C:-1, S&K:0 (pairwise -1 and triple +1 cancel)", floor=5,
             exhaustive=True)
    col.rule("R-TERM", "the atoms are what the definition says: sphere = (node position, node "
             "radius); frustum from this node to each child (near end = this node); child sphere "
             "and child frustum paired by position; every node's contribution is added exactly "
             "once and the node's sphere is handed to its parent", floor=7, shape=True)
    col.rule("R-ACCUM", "per-node sums are accumulated for every child: no `acc[parents] += x` over an index array "
             "(applied once per distinct parent: a node with several children keeps one child's term); zero "
             "expected, positive example kept", floor=1)
    col.rule("R-FORM", c13_rule("R-FORM"), floor=8, exhaustive=True)
    col.rule("R-CELL", c13_rule("R-CELL"), floor=20, exhaustive=True)
    col.rule("R-ROLE", c13_rule("R-ROLE"), floor=8, shape=True)
    col.rule("R-GEO", "every term is a volume (degree 3)", floor=4, exhaustive=True)
    col.rule("R-LINE", "geometry helpers behind the sphere/frustum form: line-sphere intersection, point projection, the "
             "perpendicular helper direction (formal identities over dot products; sign-independent axis choice)", floor=6)
    col.rule("R-LADDER", "sphere.intersect(frustum) and child.intersect(frustum) resolve to the "
             "closed sphere/frustum form with the sphere as first operand", floor=3, shape=True)
    col.not_decided += ["the value of each primitive term (structure decided under the C13 rules "
                        "repeated here)", "the pairwise frustum term of level >= 5 (sampled)",
                        "configurations outside the premise (compartments shorter than a radius, "
                        "touching non-adjacent parts)"]
    col.assumptions += ["premise of the property: each compartment is at least as long as both "
                        "end radii, hence sphere(parent) & sphere(child) lies inside their frustum"]
    from ..rules import fancyadd
    from ..rules import memo
    memo.run(ctx, col, ('swcgeom.analysis.volume', 'swcgeom.utils.volumetric_object', 'swcgeom.utils.solid_geometry'))
    col.guard(fancyadd.check, ctx, col, "R-ACCUM", (MOD, "swcgeom.utils.volumetric_object"))
    col.guard(anchored, ctx, col)
    col.guard(gate_and_terms, ctx, col)
    col.guard(entry, ctx, col)
    # primitives (shared with C13)
    col.guard(c13.forms, ctx, col)
    col.guard(c13.lens_cells, ctx, col)
    col.guard(c13.concentric, ctx, col)
    col.guard(c13.helpers, ctx, col)
    col.guard(c13.root_count, ctx, col)
    col.guard(ladder, ctx, col)


def c13_rule(rid):
    return {"R-FORM": "closed forms of the primitives summed here are identical to their definitions "
                      "(polynomial identity)",
            "R-CELL": "case analysis of the sphere/sphere and sphere/frustum closed forms, one exact "
                      "witness per cell, returned expression compared symbolically",
            "R-ROLE": "quantities entering the closed forms are the ones the formulas assume (which "
                      "end of the frustum the sphere sits on, the other end's radius, ...)"}[rid]


def _norm_term(e: ast.AST) -> str:
    return norm_src(e)


def classify(expr: ast.AST):
    s = _norm_term(expr)
    for k, v in TERMS.items():
        if s == v or s in ALT.get(k, []):
            return k
    return None


def gate_and_terms(ctx, col):
    repo = ctx.repo
    from ..rules import rtolpos as _rtolpos
    _rtolpos.run(ctx, col, ("swcgeom.analysis.volume._get_volume_frustum_cone", "swcgeom.analysis.volume._get_volume_frustum_cone.<locals>.leave",
                            "swcgeom.analysis.volume.get_volume"), rule="R-RTOLPOS")
    _rtolpos.run_conjoined(ctx, col, ("swcgeom.utils.volumetric_object.VolSphereFrustumConeIntersection._get_volume",
                                      "swcgeom.utils.volumetric_object.VolSphereFrustumConeIntersection.calc_concentric_intersect_volume"))
    col.rule("R-PAIR", "an end of a frustum is the centre and the radius of the SAME end: no 2-tuple and no pair of closeness tests takes the centre of "
             "one end with the radius of the other (zero expected; positive examples kept)", floor=1)
    from ..rules import endpair as _endpair
    _endpair.check(ctx, col, "R-PAIR", ("swcgeom.utils.volumetric_object", "swcgeom.analysis.volume", "swcgeom.utils.solid_geometry"))
    d = repo.get_def(FN)
    if "leave" not in d.nested:
        raise AnalysisError("anchor-vanished: the `leave` callback of _get_volume_frustum_cone")
    lv = d.nested["leave"]
    q = lv.qualname
    # --- atoms -------------------------------------------------------------
    asg = {norm_src(s.targets[0]): s for s in lv.node.body if isinstance(s, ast.Assign)}
    n_p, ch_p = lv.params[:2]
    sp = asg.get("sphere")
    ok = sp is not None and norm_src(sp.value) == f"VolSphere({n_p}.xyz(), {n_p}.r)"
    col.judge(sp is not None, ok, "R-TERM", q, lv.loc(sp) if sp is not None else lv.loc(), "node sphere = (node position, node radius)",
              norm_src(sp.value) if sp is not None else "", f"sphere is `{norm_src(sp.value) if sp is not None else ''}`", stmt="sphere")
    co = asg.get("cones")
    okc = False
    if co is not None and isinstance(co.value, ast.ListComp) and len(co.value.generators) == 1:
        g = co.value.generators[0]
        cv = g.target.id if isinstance(g.target, ast.Name) else None
        okc = norm_src(g.iter) == ch_p and not g.ifs and \
            norm_src(co.value.elt) == f"VolFrustumCone({n_p}.xyz(), {n_p}.r, {cv}.center, {cv}.radius)"
    col.judge(co is not None, okc, "R-TERM", q, lv.loc(co) if co is not None else lv.loc(),
              "one frustum per child, from this node (position, radius) to the child's sphere (centre, radius), in child order",
              norm_src(co.value) if co is not None else "", f"cones = `{norm_src(co.value) if co is not None else ''}`", stmt="cones")
    rets = [r for r in own_nodes(lv) if isinstance(r, ast.Return)]
    col.check(len(rets) == 1 and norm_src(rets[0].value) == "sphere", "R-TERM", q, lv.loc(rets[0]) if rets else lv.loc(),
              "the node's sphere is handed to the parent (it is the parent's K)", "", "leave does not return the node's sphere", stmt="ret")
    acc = [s for s in lv.node.body if isinstance(s, ast.AugAssign) and norm_src(s.target) == "volume"]
    ok = len(acc) == 1 and isinstance(acc[0].op, ast.Add) and norm_src(acc[0].value) == "v" and \
        any(isinstance(s, ast.Nonlocal) and "volume" in s.names for s in lv.node.body)
    col.check(ok, "R-TERM", q, lv.loc(acc[0]) if acc else lv.loc(), "each node's contribution is added to the total exactly once", "",
              "the total is not `volume += v` once per node", stmt="acc")
    calls = [c for c in own_nodes(d) if isinstance(c, ast.Call) and isinstance(c.func, ast.Attribute) and c.func.attr == "traverse"]
    ok = len(calls) == 1 and norm_src(calls[0]) == "tree.traverse(leave=leave)"
    col.check(ok, "R-TERM", d.qualname, d.loc(calls[0]) if calls else d.loc(), "post-order over the whole tree (children before parents)", "",
              "the callback is not driven by tree.traverse(leave=leave)", stmt="trav")
    last = d.node.body[-1]
    col.check(isinstance(last, ast.Return) and norm_src(last.value) == "volume", "R-TERM", d.qualname, d.loc(last),
              "the accumulated total is returned", "", "does not return the accumulated total", stmt="total")
    init = [s for s in d.node.body if isinstance(s, ast.Assign) and norm_src(s.targets[0]) == "volume"]
    col.check(len(init) == 1 and norm_src(init[0].value) in ("0.0", "0"), "R-TERM", d.qualname, d.loc(), "the total starts at zero", "",
              "total does not start at 0", stmt="init")
    # --- term statements with their guards ----------------------------------
    terms = []  # (guard exprs list, sign, term kind or None, stmt)

    def visit(body, guards):
        for s in body:
            if isinstance(s, ast.If):
                visit(s.body, guards + [(s.test, True)])
                visit(s.orelse, guards + [(s.test, False)])
            elif isinstance(s, ast.Assign) and norm_src(s.targets[0]) == "v":
                terms.append((guards, +1, classify(s.value), s, "init"))
            elif isinstance(s, ast.AugAssign) and norm_src(s.target) == "v":
                sign = +1 if isinstance(s.op, ast.Add) else (-1 if isinstance(s.op, ast.Sub) else None)
                terms.append((guards, sign, classify(s.value), s, "aug"))
    visit(lv.node.body, [])
    unknown = [t for t in terms if t[2] is None or t[1] is None]
    for g, sign, kind, s, _ in unknown:
        col.unresolved("R-INCLEXCL", q, lv.loc(s), "term of the node volume", f"`{norm_src(s)}` is not one of the recognised "
                       f"terms {list(TERMS)}", stmt="term:" + norm_src(s)[:60])
    if unknown:
        return
    inits = [t for t in terms if t[4] == "init"]
    col.check(len(inits) == 1 and inits[0][2] == "S" and not inits[0][0], "R-INCLEXCL", q, lv.loc(inits[0][3]) if inits else lv.loc(),
              "the node's volume starts from its own sphere, unconditionally", "", "v does not start as the sphere volume", stmt="start")
    # --- fold the guards for every (level, child count) ----------------------
    def active(level, m):
        out = {}
        for guards, sign, kind, s, _ in terms:
            on = True
            for test, want in guards:
                f = Folder(repo, lv.module, lv, env={"accuracy": level, "cones": [0] * m, "children": [0] * m})
                try:
                    v = bool(f.eval(test))
                except Unfoldable as e:
                    raise AnalysisError(f"guard `{norm_src(test)}` cannot be folded: {e}")
                if v != want:
                    on = False
                    break
            if on:
                out[kind] = out.get(kind, 0) + sign
        return {k: v for k, v in out.items() if v != 0 or k == "K&S"}
    for level, m in product(range(1, 10), range(0, 4)):
        try:
            got = active(level, m)
        except AnalysisError as e:
            col.unresolved("R-GATE", q, lv.loc(), f"level {level}, {m} children", str(e), stmt="gate")
            return
        got_nz = {k: v for k, v in got.items() if v != 0 and k != "K&S"}  # the lens has its own rule
        if m == 0:
            got_nz = {k: v for k, v in got_nz.items() if k == "S"}  # sums over no children vanish
        if level == 1 or m == 0:
            want_sets = [{"S": 1}]
        elif level == 2:
            want_sets = [{"S": 1, "C": 1}]
        else:
            base = {"S": 1, "C": 1, "S&C": -1, "K&C": -1}
            want_sets = [base, {**base, "CC-S": -1}]
        ok = got_nz in want_sets
        col.check(ok, "R-GATE", q, lv.loc(), f"level {level}, {m} child(ren): signed terms",
                  str(got_nz), f"level {level} with {m} child(ren) adds {got_nz}; the definition requires {want_sets[0]}"
                  + (" (optionally with the pairwise frustum correction)" if level >= 3 else ""),
                  stmt=f"gate:{level}:{m}")
    # --- coefficients at level >= 3 ------------------------------------------
    got = {k: v for k, v in active(3, 2).items()}
    for k, want, why in (("S", 1, "node sphere"), ("C", 1, "frusta"), ("S&C", -1, "sphere & own frustum counted twice"),
                         ("K&C", -1, "child sphere & frustum counted twice"),
                         ("K&S", 0, "lens of the two end spheres: pairwise -1 and triple +1 cancel because the lens lies inside the frustum")):
        col.check(got.get(k, 0) == want, "R-INCLEXCL", q, lv.loc(), f"coefficient of {k} is {want:+d} ({why})",
                  f"{got.get(k, 0):+d}", f"net coefficient of {k} is {got.get(k, 0):+d}, inclusion-exclusion requires {want:+d} ({why})",
                  stmt=f"coef:{k}")


def entry(ctx, col):
    repo = ctx.repo
    g = repo.get_def(f"{MOD}.get_volume")
    d = repo.get_def(FN)
    # level 10 -> sampling routine, before anything else
    first = [s for s in d.node.body if not (isinstance(s, ast.Expr) and isinstance(s.value, ast.Constant))][0]
    ok = isinstance(first, ast.If) and norm_src(first.test) == "accuracy == 10" and \
        [norm_src(s) for s in first.body] == ["return _get_volume_frustum_cone_mc_only(tree)"]
    col.shape(ok, "R-GATE", d.qualname, d.loc(first), "level 10 is handled by the sampling routine only", "",
              "level 10 does not leave for the sampling routine first", stmt="gate:10")
    f = Folder(repo, g.module, g)
    try:
        table = f.eval(ast.Name(id="ACCURACY_LEVELS", ctx=ast.Load()))
    except Unfoldable as e:
        col.unresolved("R-GATE", g.qualname, g.loc(), "named levels", str(e), stmt="named")
        table = None
    if table is not None:
        ok = isinstance(table, dict) and set(table) == {"low", "middle", "high"} and all(3 <= v <= 9 for v in table.values()) \
            and table["low"] <= table["middle"] <= table["high"]
        col.check(ok, "R-GATE", g.qualname, g.loc(), "named levels low <= middle <= high are analytic levels (3..9)", str(table),
                  f"ACCURACY_LEVELS = {table}", stmt="named")
    asserts = [s for s in g.node.body if isinstance(s, ast.Assert)]
    ok = len(asserts) == 1 and norm_src(asserts[0].test) in ("0 < accuracy <= 10", "1 <= accuracy <= 10")
    col.shape(ok, "R-GATE", g.qualname, g.loc(asserts[0]) if asserts else g.loc(), "admitted levels are 1..10",
              "", f"assert is `{norm_src(asserts[0].test) if asserts else ''}`", stmt="domain")
    conv = [s for s in g.node.body if isinstance(s, ast.If) and "isinstance(accuracy, str)" in norm_src(s.test)]
    ok = len(conv) == 1 and [norm_src(s) for s in conv[0].body] == ["accuracy = ACCURACY_LEVELS[accuracy]"]
    col.shape(ok, "R-GATE", g.qualname, g.loc(), "a named level is translated through the table", "", "named level not looked up in ACCURACY_LEVELS", stmt="lookup")
    calls = [c for c in own_nodes(g) if isinstance(c, ast.Call) and dotted(c.func) == "_get_volume_frustum_cone"]
    ok = len(calls) == 1 and norm_src(calls[0]) == "_get_volume_frustum_cone(tree, accuracy=accuracy)"
    col.shape(ok, "R-GATE", g.qualname, g.loc(), "the level reaches the computation unchanged", "", "accuracy is not forwarded", stmt="forward")


def ladder(ctx, col):
    repo = ctx.repo
    VM = c13.MOD
    d = repo.get_def(f"{VM}.VolSphere.intersect")
    got, last = c13._ladder(d)
    col.check(("VolFrustumCone", "VolSphereFrustumConeIntersection(self, obj)") in got, "R-LADDER", d.qualname, d.loc(),
              "sphere.intersect(frustum) is the closed sphere/frustum form, sphere first", str(got), f"ladder {got}", stmt="s&c")
    col.check(("VolSphere", "VolSphere2Intersection(self, obj)") in got, "R-LADDER", d.qualname, d.loc(),
              "sphere.intersect(sphere) is the closed lens form", str(got), f"ladder {got}", stmt="s&s")
    g = repo.get_def(f"{VM}.VolObject.get_volume")
    src = [norm_src(s) for s in g.node.body if not (isinstance(s, ast.Expr) and isinstance(s.value, ast.Constant))]
    ok = "return self.volume" in src and any("self.volume = self._get_volume()" in s for s in src)
    col.check(ok, "R-LADDER", g.qualname, g.loc(), "get_volume() dispatches to the class's own closed form (cached per object)", "",
              "get_volume does not return the object's own _get_volume()", stmt="dispatch")


def anchored(ctx, col):
    repo = ctx.repo
    d = repo.get_def(FN)
    from ..rules import callbacks
    callbacks.check(ctx, col, "R-TERM", d)
    col.text_group("R-TERM", d.qualname, d, [
        ("node sphere = (node position, node radius)", ["sphere = VolSphere(n.xyz(), n.r)"], "sphere"),
        ("one frustum per child, from this node (position, radius) to the child's sphere (centre, radius), in child order",
         ["cones = [VolFrustumCone(n.xyz(), n.r, c.center, c.radius) for c in children]"], "cones"),
        ("the node's volume starts from its own sphere", ["v = sphere.get_volume()"], "start"),
        ("each node's contribution is added to the total exactly once", ["volume += v"], "acc"),
        ("the node's sphere is handed to the parent (it is the parent's child sphere)", ["return sphere"], "ret"),
        ("the total starts at zero", ["volume = 0.0", "volume = 0"], "init"),
        ("post-order over the whole tree (children before parents)", ["tree.traverse(leave=leave)"], "trav"),
        ("the accumulated total is returned", ["return volume"], "total"),
        ("level 10 is handled by the sampling routine only", ["if accuracy == 10: return _get_volume_frustum_cone_mc_only(tree)"], "gate10"),
    ], fixed=("tree", "accuracy", "VolSphere", "VolFrustumCone", "_get_volume_frustum_cone_mc_only"))
    g = repo.get_def(f"{MOD}.get_volume")
    col.text_group("R-GATE", g.qualname, g, [
        ("a named level is translated through the table", ["if isinstance(accuracy, str): accuracy = ACCURACY_LEVELS[accuracy]"], "lookup"),
        ("admitted levels are 1..10", ["assert 0 < accuracy <= 10"], "domain"),
        ("the level reaches the computation unchanged", ["return _get_volume_frustum_cone(tree, accuracy=accuracy)"], "forward"),
    ], fixed=("tree", "accuracy", "ACCURACY_LEVELS", "_get_volume_frustum_cone"))
