"""C03 -- every tree operation returns a fresh well-formed tree, inputs untouched."""

from __future__ import annotations

import ast

from .. import own
from ..model import AnalysisError, ClassInfo, Def, dotted, norm_src, own_nodes
from ..util import walk_stmts

TU = "swcgeom.core.tree_utils"
RENUMBER = {"swcgeom.core.swc_utils.subtree.to_sub_topology",
            "swcgeom.core.swc_utils.normalizer.sort_nodes_impl"}
EXEMPT = {"swcgeom.transforms.base.Identity": "documents `return input as-is`; not among the "
                                               "property's operations"}


def _propagate(ctx, col):
    """R-PROPAGATE: a table of removal marks is closed downwards before it is renumbered (CFG must-pass): in the public pruning functions every path from the entry to the
    renumbering call (to_sub_topology / to_subtree_impl) passes through propagate_removal -- a marked inner node whose descendants are not marked leaves dangling parents."""
    from .. import cfg as cfgmod
    from ..rules.sortedness import _stmt_of
    repo = ctx.repo
    col.rule("R-PROPAGATE", "removal marks are propagated to the descendants before the table is renumbered: in to_subtree / to_sub_tree (the functions that receive marks from the caller) every "
             "path from the entry to to_sub_topology / to_subtree_impl passes through propagate_removal (CFG must-pass); otherwise marking an inner node raises KeyError instead of pruning", floor=1)
    for name in ("to_subtree", "to_sub_tree"):
        try:
            d = repo.get_def(f"{TU}.{name}")
        except Exception:  # noqa: BLE001
            continue
        calls = [c for c in own_nodes(d) if isinstance(c, ast.Call) and (dotted(c.func) or "").rsplit(".", 1)[-1] in ("to_sub_topology", "to_subtree_impl")]
        if not calls:
            col.unresolved("R-PROPAGATE", d.qualname, d.loc(), "marks are closed downwards before renumbering", "no renumbering call found", stmt=f"propagate:{name}")
            continue
        g = cfgmod.build(d)

        def passes(n):
            return n.ast is not None and any(isinstance(c, ast.Call) and (dotted(c.func) or "").rsplit(".", 1)[-1] == "propagate_removal" for c in ast.walk(n.ast)
                                             if not isinstance(n.ast, (ast.If, ast.For, ast.While, ast.With, ast.Try)) or any(x is c for x in ast.walk(getattr(n.ast, "test", None) or getattr(n.ast, "iter", None) or ast.Pass())))
        for c in calls:
            st = _stmt_of(d, c)
            node = g.node_of(st) if st is not None else None
            if node is None:
                col.unresolved("R-PROPAGATE", d.qualname, d.loc(c), "marks are closed downwards before renumbering", "call not on the CFG", stmt=f"propagate:{name}")
                continue
            same_stmt = any(isinstance(x, ast.Call) and (dotted(x.func) or "").rsplit(".", 1)[-1] == "propagate_removal" for x in ast.walk(st))
            ok_ = same_stmt or g.must_pass(g.entry, [node], passes)
            col.check(ok_, "R-PROPAGATE", d.qualname, d.loc(c), "marks are closed downwards before renumbering", norm_src(st)[:70],
                      f"`{norm_src(c)[:70]}` is reached on a path that never calls propagate_removal: when the caller marks an inner node, its unmarked descendants keep a parent that is "
                      f"removed -- the renumbering raises KeyError (or returns a forest) instead of the pruned tree", stmt=f"propagate:{name}", definite=True)


def _rowtext(ctx, col):
    from .. import relang
    from .c01 import reader_patterns, r_capture
    p, _re_assign, pats = reader_patterns(ctx)
    if not pats:
        col.unresolved("R-ROWTEXT", p.qualname, p.loc(), "row regex", "cannot fold the row pattern", stmt="hash-not-row")
        return
    def first_use(name):
        ls = [n.lineno for n in own_nodes(p) if isinstance(n, ast.Call) and isinstance(n.func, ast.Attribute) and isinstance(n.func.value, ast.Name) and n.func.value.id == name]
        return min(ls) if ls else None
    row_at, com_at = first_use(_re_assign.targets[0].id if isinstance(_re_assign.targets[0], ast.Name) else "re_swc"), first_use("RE_COMMENT")
    if row_at is None or (com_at is not None and com_at < row_at):
        col.unresolved("R-ROWTEXT", p.qualname, p.loc(), "a comment line is never read as a node", "the comment pattern is tried before the row pattern (or the row match is not a method call on the compiled "
                       "pattern): whether a '#' line can reach the row pattern is not decided here", stmt="hash-not-row")
        r_capture(ctx, col, "R-ROWTEXT")
        return
    for tag, pat in sorted(pats.items()):
        try:
            N, s0, _fin = relang.compile_nfa(pat, search=True)
            S = relang._closure(N, {s0})
            hit = None
            for lead in ("", " ", "\t", "\ufeff"):
                T = S
                for ch in lead:
                    T = relang._step(N, T, ch)
                if T and relang._step(N, T, "#"):
                    hit = lead
                    break
            col.check(hit is None, "R-ROWTEXT", p.qualname, p.loc(), f"a comment line is never read as a node ({tag})", "no state of the row regex survives a leading '#'",
                      f"the row regex can consume {(hit or '') + '#'!r} at the start of a line: a commented-out sample (`# 7 3 4.0 -3.0 0.0 0.5 6`, as written back from a tree's comments) is "
                      f"read as a node, the table gets a row whose id is not its position", stmt=f"hash-not-row:{tag}", definite=True)
        except relang.UnsupportedRegex as ex:
            col.unresolved("R-ROWTEXT", p.qualname, p.loc(), f"comment vs row regex ({tag})", str(ex), stmt=f"hash-not-row:{tag}")
    r_capture(ctx, col, "R-ROWTEXT")


# ------------------------------------------------------------------ discovery
def tree_ops(ctx):
    """[(label, def, self_class|None)] of tree -> tree operations, discovered."""
    repo, ty = ctx.repo, ctx.typer
    swclike = repo.get_class("swcgeom.core.swc.SWCLike")
    node_c = repo.get_class("swcgeom.core.node.Node")
    path_c = repo.get_class("swcgeom.core.path.Path")

    def is_tree(t):
        return isinstance(t, ClassInfo) and t.is_subclass_of(swclike) and not t.is_subclass_of(path_c)

    def ret_has_tree(d: Def, self_cls=None):
        t = ty.return_type(d, self_cls)
        if is_tree(t):
            return True
        if isinstance(t, tuple) and t[0] == "tuple":
            return any(is_tree(x) for x in t[1])
        return False

    ops = []
    m = repo.get_module(TU)
    for name in (m.all_names or []):
        b = m.bindings.get(name)
        if b is None or b.kind != "def":
            continue
        d = b.target
        ptypes = [ty.ann_type(d.param_annotation(p), d.module, None) for p in d.params]
        if any(is_tree(t) for t in ptypes) and ret_has_tree(d):
            ops.append((f"{name}", d, None))
    T = repo.get_class("swcgeom.transforms.base.Transform")
    for c in sorted(repo.subclasses(T), key=lambda k: k.qualname):
        if not c.module.name.startswith("swcgeom.transforms"):
            continue
        call = c.lookup_method("__call__")
        if call is None or own._is_abstract(call) or len(call.params) < 2:
            continue
        pt = ty.ann_type(call.param_annotation(call.params[1]), call.module, None,
                         cls_ctx=call.cls, tv_ctx=c)
        if is_tree(pt) and ret_has_tree(call, c):
            ops.append((c.qualname.split(".", 2)[-1], call, c))
    for q in ("swcgeom.core.tree.Tree.Node.subtree", "swcgeom.core.swc.DictSWC.copy"):
        ops.append((q.split(".", 2)[-1], repo.get_def(q), None))
    return ops


def analyse(ctx, d: Def, self_cls):
    I = own.Interp(ctx)
    args, kw = [], {}
    names = d.params
    if d.cls is not None and not d.is_staticmethod():
        names = names[1:]
        if self_cls is not None:
            selfv = I.construct(self_cls, [], {})
        elif d.cls.is_subclass_of(ctx.repo.get_class("swcgeom.core.node.Node")):
            selfv = I.param_view(d.cls, "P:self")
        elif I.is_tree_class(d.cls):
            selfv = I.param_tree(d.cls, "P:self")
        else:
            selfv = I.construct(d.cls, [], {})
        args.append(selfv)
    a = d.node.args
    kwonly = {x.arg for x in a.kwonlyargs}
    protected = []
    for p in names:
        if (a.vararg and p == a.vararg.arg) or (a.kwarg and p == a.kwarg.arg):
            continue
        v = I.value_for_annotation(d, p, "P:" + p)
        if isinstance(v, own.Obj):
            protected.append(p)
        if p in kwonly:
            kw[p] = v
        else:
            args.append(v)
    I.effects.clear()
    I.notes.clear()
    r = I.call_def(d, args, kw)
    return I, r, protected


def run(ctx, col, tier):
    repo = ctx.repo
    from ..rules import smalllints as _small_own
    col.rule("R-OWNLIST", "every tree object has its own comment list: the constructor binds a fresh list to self.comments on every path (the class-level default list is shared by "
             "all objects that do not); edits of one side's comments cannot leak into the other", floor=1)
    _small_own.own_container_on_every_path(ctx, col, "R-OWNLIST", "swcgeom.core.swc.DictSWC", "comments", "every DictSWC / Tree gets its own comment list")
    col.rule("R-ROWTEXT", "reading a file yields the nodes its rows describe and nothing else: a line starting with '#' never matches the row regex (NFA of the folded pattern), "
             "and the row regex matches nothing but white space outside its capture groups -- otherwise commented-out or junk text becomes an extra node whose id is not its position", floor=2)
    col.guard(_rowtext, ctx, col)
    col.guard(_propagate, ctx, col)
    from ..rules import endpoints as _endpoints
    _endpoints.run(ctx, col, ('swcgeom.core.tree', 'swcgeom.core.path', 'swcgeom.core.branch', 'swcgeom.core.node', 'swcgeom.core.tree_utils', 'swcgeom.core.tree_utils_impl', 'swcgeom.core.swc_utils.base', 'swcgeom.core.swc_utils.subtree', 'swcgeom.core.swc_utils.normalizer', 'swcgeom.core.swc_utils.io'))
    from ..rules import stateless as _stateless_memo
    _stateless_memo.run_memo(ctx, col)
    from .c06 import subtree_order as _subtree_order
    col.guard(_subtree_order, ctx, col)
    from ..rules import stale as _stale
    _stale.run(ctx, col, ('swcgeom.core.tree_utils', 'swcgeom.core.tree_utils_impl', 'swcgeom.transforms.tree', 'swcgeom.transforms.path', 'swcgeom.transforms.branch_tree'))
    from ..rules import smalllints as _small
    _small.run_rounds(ctx, col, ('swcgeom.core.swc_utils.subtree', 'swcgeom.core.swc_utils.base', 'swcgeom.core.swc_utils.normalizer', 'swcgeom.core.tree_utils', 'swcgeom.core.tree_utils_impl'))
    from ..rules import loopvar as _loopvar
    _loopvar.run(ctx, col, ('swcgeom.core.tree', 'swcgeom.core.tree_utils', 'swcgeom.core.tree_utils_impl', 'swcgeom.core.swc_utils.base', 'swcgeom.core.swc_utils.subtree', 'swcgeom.core.swc_utils.normalizer', 'swcgeom.core.swc_utils.assembler', 'swcgeom.core.swc_utils.io', 'swcgeom.transforms.tree', 'swcgeom.transforms.branch_tree'))
    from ..rules import rowslice as _rowslice
    _rowslice.run(ctx, col, ('swcgeom.core.tree', 'swcgeom.core.tree_utils', 'swcgeom.core.tree_utils_impl', 'swcgeom.core.swc_utils.base', 'swcgeom.core.swc_utils.subtree', 'swcgeom.core.swc_utils.normalizer', 'swcgeom.transforms.tree'))
    from ..rules import rootpos as _rootpos
    _rootpos.run(ctx, col, ('swcgeom.core.tree_utils', 'swcgeom.core.tree_utils_impl', 'swcgeom.core.tree', 'swcgeom.transforms.tree', 'swcgeom.transforms.path', 'swcgeom.core.swc_utils.subtree'))
    col.rule("R-PURE", "ownership abstract interpretation of each discovered tree->tree "
             "operation (callees and traversal callbacks expanded): no store through any alias "
             "of an input tree's storage or object; the result is a fresh object none of whose "
             "columns / comment list share storage with an input", floor=30)
    col.rule("R-MUSTPASS", "operations that add, delete or re-link nodes reach every return "
             "through a renumbering routine (to_sub_topology / sort_nodes_impl) or return a copy",
             floor=8)
    col.rule("R-WRITESET", "geometric / smoothing / radius operations store only to the columns "
             "they are about (x,y,z / r); ids, parents and types cannot change", floor=5)
    col.rule("R-ORDER", "no operation depends on the node numbering beyond the root being first: no "
             "loop over rows in storage order reads, at the row's parent, an array it fills in that "
             "loop; zero expected, positive examples kept", floor=1)
    col.rule("R-STATE", "applying a transform leaves the transform object unchanged: no method other than __init__ "
             "assigns to self or mutates a container held by self without undoing it (stale removal lists, "
             "a matrix conjugated twice, a cached array shared between results); zero expected, positive examples kept", floor=1)
    col.rule("R-COMPOSE", "a pipeline only rebinds its value to the result of the next component",
             floor=1, shape=True)
    col.assumptions += [
        "numpy view/copy table: basic slicing, .T, reshape, ravel, asarray, to_numpy, expand_dims, "
        "moveaxis, flip return views; advanced indexing, arithmetic, np.array, copy, astype, "
        "concatenate/stack/pad/delete/where/full/zeros/ones/arange/insert/cumsum/interp allocate",
        "copy.deepcopy returns storage disjoint from its argument",
        "user callbacks (cut_tree enter/leave) are outside the analysed program",
    ]
    col.not_decided += ["that every node reaches the root as a statement about values",
                        "pipelines are covered by composition (each step pure), not enumerated"]

    ops = tree_ops(ctx)
    total_calls = total_stores = 0
    for label, d, self_cls in ops:
        q = self_cls.qualname if self_cls is not None else d.qualname
        if q in EXEMPT:
            col.info("R-PURE", q, d.loc(), label, f"exempt: {EXEMPT[q]}")
            continue
        if q.endswith("transforms.base.Transforms"):
            continue
        I, r, protected = analyse(ctx, d, self_cls)
        total_calls += I.calls_evaluated
        total_stores += I.stores_seen
        facts = {"callees_expanded": I.calls_evaluated, "store_sites_met": I.stores_seen,
                 "protected_inputs": protected, "imprecision_notes": I.notes[:6]}
        # (a) inputs untouched
        if I.effects:
            for e in I.effects[:3]:
                col.bad("R-PURE", q, e.where(), f"{label}: inputs untouched",
                        f"{'in-place write to' if e.kind == 'write' else 'mutation of'} storage of "
                        f"input {sorted(x[2:] for x in e.owners)} by `{norm_src(e.node)[:70]}` "
                        f"(reached via {' > '.join(x.split('.')[-1] for x in e.chain[-4:])})",
                        stmt=f"{label}:write:{norm_src(e.node)[:80]}", facts=facts)
        else:
            col.ok("R-PURE", q, d.loc(), f"{label}: inputs untouched",
                   f"{I.stores_seen} store sites met, none through an input alias",
                   stmt=f"{label}:untouched", facts=facts)
        # (b) result fresh
        rv = r
        if isinstance(rv, own.TupleV):
            objs = [x for x in rv.elts if isinstance(x, own.Obj)]
            rv = objs[0] if objs else rv
        if not isinstance(rv, own.Obj):
            col.unresolved("R-PURE", q, d.loc(), f"{label}: result is fresh",
                           f"result abstracted to {type(rv).__name__}; notes: {I.notes[:3]}",
                           stmt=f"{label}:fresh")
            continue
        shared = own.storage_owners(rv)
        if rv.obj_owners:
            col.bad("R-PURE", q, d.loc(), f"{label}: result is fresh",
                    f"the operation can return the input object itself ({sorted(rv.obj_owners)})",
                    stmt=f"{label}:fresh", facts=facts)
        elif shared:
            which = [k for k, v in rv.fields.items() if own.storage_owners(v)]
            col.bad("R-PURE", q, d.loc(), f"{label}: result is fresh",
                    f"result field(s) {which} share storage with input "
                    f"{sorted(x[2:] for x in shared)}: later edits leak between input and result",
                    stmt=f"{label}:fresh", facts=facts)
        else:
            col.ok("R-PURE", q, d.loc(), f"{label}: result is fresh",
                   "fresh object; every column and the comment list freshly allocated",
                   stmt=f"{label}:fresh", facts=facts)
    col.analysed["own_calls_expanded"] = total_calls
    col.analysed["own_store_sites"] = total_stores
    col.analysed["operations"] = [o[0] for o in ops]

    from ..rules import orderdep
    col.guard(orderdep.check, ctx, col, "R-ORDER", (
        "swcgeom.core.tree_utils", "swcgeom.core.tree_utils_impl", "swcgeom.core.swc_utils.subtree",
        "swcgeom.core.swc_utils.normalizer", "swcgeom.core.swc_utils.base", "swcgeom.transforms.tree",
        "swcgeom.transforms.geometry", "swcgeom.transforms.branch_tree", "swcgeom.transforms.branch",
        "swcgeom.core.swc", "swcgeom.core.tree", "swcgeom.core.branch_tree"), "tree-to-tree operations")
    from ..rules import stateless
    col.guard(stateless.check, ctx, col, "R-STATE", ("swcgeom.transforms.tree", "swcgeom.transforms.geometry", "swcgeom.transforms.branch", "swcgeom.transforms.branch_tree", "swcgeom.transforms.base", "swcgeom.transforms.path", "swcgeom.transforms.population"))
    from ..rules import ignoredparam
    ignoredparam.run(ctx, col, ('swcgeom.transforms.tree', 'swcgeom.transforms.geometry', 'swcgeom.transforms.branch', 'swcgeom.transforms.branch_tree', 'swcgeom.transforms.base', 'swcgeom.transforms.path', 'swcgeom.transforms.population', 'swcgeom.core.tree_utils', 'swcgeom.core.tree_utils_impl', 'swcgeom.core.swc_utils.subtree', 'swcgeom.core.swc_utils.normalizer'))
    col.guard(subtree_root, ctx, col)
    col.guard(mustpass, ctx, col)
    col.guard(writeset, ctx, col)
    col.guard(compose, ctx, col)


# ------------------------------------------------------------------ R-MUSTPASS
def reaches_renumber(ctx, d: Def, _memo={}) -> bool:
    cg = ctx.cg
    key = id(d.node)
    if key in _memo:
        return _memo[key]
    reach = cg.reachable([d], exclude_kinds=("callback",))
    r = any(x.qualname in RENUMBER for x in reach)
    _memo[key] = r
    return r


def mustpass(ctx, col):
    repo, cg = ctx.repo, ctx.cg
    targets = [f"{TU}.sort_tree", f"{TU}.cut_tree", f"{TU}.to_subtree", f"{TU}.get_subtree",
               f"{TU}.to_sub_tree", f"{TU}.cat_tree", "swcgeom.core.tree.Tree.Node.subtree",
               "swcgeom.transforms.tree.CutByType.__call__",
               "swcgeom.transforms.tree.CutByFurcationOrder.__call__",
               "swcgeom.transforms.tree.CutShortTipBranch.__call__"]
    for q in targets:
        d = repo.get_def(q)
        g = ctx.cfg(d)
        edges = {}
        for e in cg.out.get(d, []):
            if e.callee is not None and e.strength == "strong" and e.kind in ("call", "virtual", "init"):
                edges.setdefault(id(e.call), []).append(e.callee)

        def passes(n):
            if n.ast is None or n.kind not in ("stmt", "test", "loop"):
                return False
            for x in ast.walk(n.ast) if not isinstance(n.ast, (ast.FunctionDef,)) else []:
                if isinstance(x, ast.Call) and any(
                        c.qualname in RENUMBER or reaches_renumber(ctx, c) for c in edges.get(id(x), [])):
                    return True
            return False

        rets = [n for n in g.nodes if n.kind == "stmt" and isinstance(n.ast, ast.Return)]
        for rn in rets:
            v = rn.ast.value
            is_copy = isinstance(v, ast.Call) and isinstance(v.func, ast.Attribute) and v.func.attr == "copy" \
                and isinstance(v.func.value, ast.Name) and v.func.value.id in d.params
            ok = is_copy or g.must_pass(g.entry, [rn], lambda n: passes(n) and n is not None,
                                        edge_ok=lambda a, b, l: l != "exc") or passes(rn)
            # must_pass counts rn itself only through passes(rn)
            col.check(ok, "R-MUSTPASS", q, d.loc(rn.ast), f"`{norm_src(rn.ast)[:60]}`",
                      "copy of the input" if is_copy else "every path renumbers",
                      "a path reaches this return without passing to_sub_topology / sort_nodes_impl: "
                      "ids need not be 0..n-1 with parents first", stmt=rn.ast)
    # redirect_tree: sorted on the default path; unsorted path writes pid/type only (R-WRITESET)
    d = repo.get_def(f"{TU}.redirect_tree")
    ifs = [n for n in own_nodes(d) if isinstance(n, ast.If) and norm_src(n.test) == "sort"]
    ok = len(ifs) == 1 and any(isinstance(c, ast.Call) and dotted(c.func) == "_sort_tree"
                               for s in ifs[0].body for c in ast.walk(s))
    col.check(ok, "R-MUSTPASS", d.qualname, d.loc(), "re-rooting with sort=True renumbers", "",
              "`if sort:` does not call _sort_tree", stmt="redirect-sort")
    if ok:
        # ... on EVERY path: no return is reachable without passing the `if sort:` decision (an early return for a special case --
        # "the node already is the root" -- hands back a tree that was asked to be renumbered and is not)
        g = ctx.cfg(d)
        rets = [n for n in g.nodes if n.kind == "stmt" and isinstance(n.ast, ast.Return)]
        for rn in rets:
            inside = any(x is rn.ast for s_ in ifs[0].body for x in ast.walk(s_))
            through = g.must_pass(g.entry, [rn], lambda n: n.ast is ifs[0] or (n.ast is not None and n.ast is ifs[0].test), edge_ok=lambda a, b, l: l != "exc")
            col.check(bool(inside or through), "R-MUSTPASS", d.qualname, d.loc(rn.ast), f"`{norm_src(rn.ast)[:50]}` is reached through the `if sort:` decision",
                      "", f"`{norm_src(rn.ast)[:50]}` can be reached without passing `if sort: _sort_tree(...)`: with sort=True (the default) that path "
                      f"returns a tree that is not renumbered (root not at 0 / a parent after its child when the input was not sorted)",
                      stmt="redirect-sort-path", definite=True)


# ------------------------------------------------------------------ R-WRITESET
def _key_names(ctx, d: Def, key: ast.AST) -> set | None:
    """Column(s) a subscript key denotes."""
    if isinstance(key, ast.Constant) and isinstance(key.value, str):
        return {key.value}
    if isinstance(key, ast.Attribute) and isinstance(key.value, ast.Attribute) and key.value.attr == "names":
        return {key.attr}
    if isinstance(key, ast.Attribute) and isinstance(key.value, ast.Name) and key.value.id == "names":
        return {key.attr}
    if isinstance(key, ast.Name):
        # loop variable over a literal list of keys
        for n in own_nodes(d):
            if isinstance(n, ast.For) and isinstance(n.target, ast.Name) and n.target.id == key.id:
                it = n.iter
                if isinstance(it, ast.Name):
                    nm = it.id
                    for a in own_nodes(d):
                        if isinstance(a, ast.Assign) and norm_src(a.targets[0]) == nm:
                            it = a.value
                if isinstance(it, (ast.List, ast.Tuple)):
                    out = set()
                    for e in it.elts:
                        k = _key_names(ctx, d, e)
                        if k is None:
                            return None
                        out |= k
                    return out
    return None


def ndata_store_keys(ctx, d: Def):
    """[(stmt, keys|None)] for stores `<x>.ndata[K] = ..`, `<x>.ndata[K][..] = ..`, aug-assigns."""
    out = []
    for n in own_nodes(d):
        tgts = []
        if isinstance(n, ast.Assign):
            tgts = n.targets
        elif isinstance(n, ast.AugAssign):
            tgts = [n.target]
        for t in tgts:
            for tt in (t.elts if isinstance(t, ast.Tuple) else [t]):
                x = tt
                while isinstance(x, ast.Subscript):
                    if isinstance(x.value, ast.Attribute) and x.value.attr == "ndata":
                        out.append((n, _key_names(ctx, d, x.slice)))
                        break
                    x = x.value
                if isinstance(tt, ast.Attribute) and tt.attr == "ndata":
                    out.append((n, None))
    return out


def writeset(ctx, col):
    repo = ctx.repo
    table = [
        ("swcgeom.transforms.geometry.AffineTransform.apply", {"x", "y", "z"}),
        ("swcgeom.transforms.tree.TreeSmoother.__call__", {"x", "y", "z"}),
        ("swcgeom.transforms.branch.BranchConvSmoother.__call__", {"x", "y", "z"}),
        ("swcgeom.transforms.geometry.RadiusReseter.__call__", {"r"}),
        ("swcgeom.transforms.geometry.Normalizer.__call__", {"x", "y", "z", "r"}),
    ]
    for q, allowed in table:
        d = repo.get_def(q)
        stores = ndata_store_keys(ctx, d)
        if not stores:
            col.unresolved("R-WRITESET", q, d.loc(), "column stores", "no ndata store found")
            continue
        keys = set()
        unknown = [s for s, k in stores if k is None]
        for s, k in stores:
            keys |= (k or set())
        if unknown:
            col.unresolved("R-WRITESET", q, d.loc(unknown[0]), "column stores",
                           f"cannot resolve the key of `{norm_src(unknown[0])[:60]}`")
            continue
        col.check(keys <= allowed, "R-WRITESET", q, d.loc(stores[0][0]),
                  f"stores only to {sorted(allowed)}", f"{sorted(keys)} over {len(stores)} store sites",
                  f"stores to column(s) {sorted(keys - allowed)}: topology/type/radius can change",
                  stmt="writeset", facts={"keys": sorted(keys)})
    # redirect_tree writes only pid and type through node handles
    d = repo.get_def(f"{TU}.redirect_tree")
    attrs = set()
    for n in own_nodes(d):
        if isinstance(n, ast.Assign):
            for t in n.targets:
                for tt in (t.elts if isinstance(t, ast.Tuple) else [t]):
                    if isinstance(tt, ast.Attribute):
                        attrs.add(tt.attr)
                    elif isinstance(tt, ast.Subscript):
                        attrs.add("<subscript>")
    col.check(attrs <= {"pid", "type"} and "pid" in attrs, "R-WRITESET", d.qualname, d.loc(),
              "re-rooting stores only pid and type", f"{sorted(attrs)}",
              f"re-rooting stores to {sorted(attrs - {'pid', 'type'})}", stmt="writeset")


def compose(ctx, col):
    d = ctx.repo.get_def("swcgeom.transforms.base.Transforms.__call__")
    body = [s for s in d.node.body if not (isinstance(s, ast.Expr) and isinstance(s.value, ast.Constant))]
    ok = len(body) == 2 and isinstance(body[0], ast.For) and norm_src(body[0].iter) == "self.transforms" \
        and len(body[0].body) == 1 and norm_src(body[0].body[0]) == f"x = {norm_src(body[0].target)}(x)" \
        and norm_src(body[1]) == "return x"
    col.judge(len(body) == 2 and isinstance(body[0], ast.For), ok, "R-COMPOSE", d.qualname, d.loc(),
              "x = t(x) for each component in order, then return x", "",
              "pipeline body is not the sequential composition of its components", stmt="compose")


def subtree_root(ctx, col):
    """Sub-tree extraction: node 0 of the result is the requested node (ids in traversal order, start node first)."""
    d = ctx.repo.get_def("swcgeom.core.tree_utils_impl.get_subtree_impl")
    col.rule("R-ROOT0", "sub-tree extraction keeps the start node first: ids are collected in traversal order from the start node, that order is kept, "
             "and the first of them becomes the root", floor=4, shape=True)
    col.text_group("R-ROOT0", d.qualname, d, [
        ("ids are collected by a traversal that starts at the requested node (pre-order: the start node comes first)",
         ["traverse(topo, enter=lambda n, _: ids.append(n), root=n)"], "sub:collect"),
        ("that order is kept", ["sub_ids = np.array(ids, dtype=np.int32)"], "sub:order"),
        ("parents of the kept nodes", ["sub_pid = swc_like.pid()[sub_ids]"], "sub:pid"),
        ("the first kept node (the start node) becomes the root", ["sub_pid[0] = -1"], "sub:root"),
        ("the rest is renumbered by the common routine", ["return to_subtree_impl(swc_like, (sub_ids, sub_pid), out_mapping=out_mapping)"], "sub:impl")],
        fixed=("swc_like", "n", "traverse", "to_subtree_impl", "out_mapping"))
