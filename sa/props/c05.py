"""C05 -- node renumbering is a pure relabelling with parents before children."""

from __future__ import annotations

import ast

from ..model import AnalysisError, dotted, norm_src, own_nodes
from ..util import names_in
from .c04 import recursion_free

NORM = "swcgeom.core.swc_utils.normalizer"
TU = "swcgeom.core.tree_utils"


def destructure_sort_call(d, callee="sort_nodes_impl"):
    """`(a, b), c = sort_nodes_impl((x, y))` -> (assign, a, b, c, x, y)"""
    for n in own_nodes(d):
        if isinstance(n, ast.Assign) and isinstance(n.value, ast.Call) \
                and (dotted(n.value.func) or "").split(".")[-1] == callee:
            t = n.targets[0]
            if isinstance(t, ast.Tuple) and len(t.elts) == 2 and isinstance(t.elts[0], ast.Tuple) \
                    and len(t.elts[0].elts) == 2 and isinstance(t.elts[1], ast.Name):
                a, b = [e.id for e in t.elts[0].elts]
                arg = n.value.args[0] if n.value.args else None
                x = y = None
                if isinstance(arg, ast.Tuple) and len(arg.elts) == 2:
                    x, y = arg.elts
                return n, a, b, t.elts[1].id, x, y
    raise AnalysisError(f"anchor-vanished: `(ids, pids), perm = {callee}(...)` in {d.qualname}")


def resolve_local(d, e):
    """Follow a local single assignment `ids, pids = A, B` for a Name."""
    if isinstance(e, ast.Name):
        for n in own_nodes(d):
            if isinstance(n, ast.Assign):
                t = n.targets[0]
                if isinstance(t, ast.Tuple) and isinstance(n.value, ast.Tuple) and len(t.elts) == len(n.value.elts):
                    for te, ve in zip(t.elts, n.value.elts):
                        if isinstance(te, ast.Name) and te.id == e.id:
                            return ve
                elif isinstance(t, ast.Name) and t.id == e.id:
                    return n.value
    return e


def col_role(e):
    """Which column does an expression read: 'id' | 'pid' | None."""
    s = norm_src(e)
    for role in ("pid", "id"):
        if f"names.{role}]" in s or s.endswith(f".{role}()"):
            return role
    return None


def run(ctx, col, tier):
    repo = ctx.repo
    from ..rules import smalllints2 as _s2
    _s2.run_framecast(ctx, col, ('swcgeom.core.swc_utils.normalizer', 'swcgeom.core.swc_utils.io', 'swcgeom.core.tree_utils', 'swcgeom.core.swc_utils.assembler'))
    from ..rules import endpoints as _endpoints
    _endpoints.run(ctx, col, ('swcgeom.core.tree', 'swcgeom.core.path', 'swcgeom.core.branch', 'swcgeom.core.node', 'swcgeom.core.tree_utils', 'swcgeom.core.tree_utils_impl', 'swcgeom.core.swc_utils.base', 'swcgeom.core.swc_utils.subtree', 'swcgeom.core.swc_utils.normalizer', 'swcgeom.core.swc_utils.io'))
    from ..rules import sortedness as _sortedness
    _sortedness.run(ctx, col, ('swcgeom.core.swc_utils.normalizer', 'swcgeom.core.swc_utils.base', 'swcgeom.core.swc_utils.io', 'swcgeom.core.tree_utils'))
    col.guard(reset_before_sort, ctx, col)
    col.guard(inplace_permutation, ctx, col)
    from ..rules import stateless as _stateless_memo
    _stateless_memo.run_memo(ctx, col)
    col.rule("R-UNIF", "the row permutation is applied to the container's whole key set, every "
             "column indexed by the permutation component of one renumbering call, ids/parent ids "
             "overwritten by that call's new topology, topology passed as (ids, parent ids)",
             floor=8, shape=True)
    col.rule("R-COUNTER", "DFS renumbering: one pop -> one slot; the new id counter is read for "
             "the slot and as the children's parent before its single unconditional increment and "
             "is never decreased; children are selected by parent id == popped id; new ids are "
             "0..n-1; the row index is old-id -> old-position", floor=12, exhaustive=True, shape=True)
    col.rule("R-CG", "renumbering is recursion-free", floor=2)
    col.assumptions += ["single-rooted input (asserted by the code)", "numpy fancy indexing copies"]
    col.not_decided += ["bijectivity as a statement about values", "idempotence up to sibling order"]

    # ---------------- R-UNIF: table form
    d = repo.get_def(f"{NORM}.sort_nodes_")
    col.text_group("R-UNIF", d.qualname, d, [
        ("topology argument is (id column, parent-id column)",
         ["ids, pids = df[names.id].to_numpy(), df[names.pid].to_numpy()"], "topology-arg"),
        ("one renumbering call yields the new topology and the row index",
         ["(new_ids, new_pids), indices = sort_nodes_impl((ids, pids))"], "call"),
        ("every column of the table (df.columns: extra columns included) is permuted by that row index, detached from the old row labels",
         ["for col in df.columns: df[col] = df[col][indices].to_numpy()",
          "for col in df.columns: df[col] = df[col].to_numpy()[indices]"], "gather"),
        ("id / parent-id columns are overwritten by the new topology",
         ["df[names.id], df[names.pid] = new_ids, new_pids"], "overwrite"),
    ], fixed=("df", "names", "sort_nodes_impl"))
    table_gather_keys(ctx, col, "R-UNIF")
    # ---------------- R-UNIF: tree form
    t = repo.get_def(f"{TU}._sort_tree")
    col.text_group("R-UNIF", t.qualname, t, [
        ("one renumbering call on (tree.id(), tree.pid()) yields the new topology and the row index",
         ["(new_ids, new_pids), id_map = sort_nodes_impl((tree.id(), tree.pid()))"], "call"),
        ("every key of tree.ndata is permuted by that row index into a new dict",
         ["tree.ndata = {k: tree.ndata[k][id_map] for k in tree.ndata}",
          "tree.ndata = {k: v[id_map] for k, v in tree.ndata.items()}"], "gather"),
        ("id / pid are overwritten by the new topology", ["tree.ndata.update(id=new_ids, pid=new_pids)"], "overwrite"),
    ], fixed=("tree", "sort_nodes_impl"))
    tree_gather_keys(ctx, col, "R-UNIF")
    st = repo.get_def(f"{TU}.sort_tree")
    col.text_group("R-UNIF", st.qualname, st, [("sort_tree sorts a copy", ["return _sort_tree(tree.copy())"], "copy")], fixed=("_sort_tree", "tree"))
    rs = repo.get_def("swcgeom.core.swc_utils.io.read_swc")
    col.text_group("R-UNIF", rs.qualname, rs, [
        ("read_swc(sort_nodes=True) renumbers the table it read, as read (row labels 0..n-1)", ["if sort_nodes: sort_nodes_(df)\nelif reset_index: reset_index_(df)"], "read-sort")],
        fixed=("sort_nodes", "reset_index", "sort_nodes_", "reset_index_", "df"))
    # the label-based gather `df[col][indices]` is right only while the row labels are 0..n-1: nothing may reorder
    # or relabel the frame between parsing and sorting
    muts = [c for c in own_nodes(rs) if isinstance(c, ast.Call) and isinstance(c.func, ast.Attribute)
            and c.func.attr in ("sort_values", "sort_index", "sample", "reindex", "set_index") and "df" in names_in(c.func.value)]
    for c in muts:
        keeps = any(k.arg == "ignore_index" and isinstance(k.value, ast.Constant) and k.value.value is True for k in c.keywords)
        if not keeps:
            col.bad("R-UNIF", rs.qualname, rs.loc(c), "rows keep their labels 0..n-1 until the table is renumbered",
                    f"`{norm_src(c)[:80]}` reorders the rows but keeps their old labels; the renumbering then gathers columns by "
                    f"label (`df[col][indices]`), i.e. from the wrong rows", stmt="relabel", definite=True)
    ca = repo.get_def(f"{NORM}._copy_and_apply")
    col.text_group("R-UNIF", ca.qualname, ca, [
        ("the non-underscore forms work on a copy", ["df = df.copy()"], "copy-apply-1"),
        ("... apply the in-place form to the copy", ["fn(df, *args, **kwargs)"], "copy-apply-2"),
        ("... and return the copy", ["return df"], "copy-apply-3")], fixed=("fn", "args", "kwargs"))

    col.guard(counter_rule, ctx, col)

    for q, what in ((f"{TU}.sort_tree", "sort_tree"), (f"{NORM}.sort_nodes_", "sort_nodes_")):
        recursion_free(ctx, col, "R-CG", [q], f"recursion-free from {what}")


def table_gather_keys(ctx, col, rule):
    """the row permutation of the table form must cover the whole key set: a literal / names-derived subset drops the extra columns"""
    d = ctx.repo.get_def(f"{NORM}.sort_nodes_")
    loops = [n for n in own_nodes(d) if isinstance(n, ast.For)]
    for lp in loops:
        if any(isinstance(x, ast.Subscript) and "df" in names_in(x) for x in ast.walk(lp)):
            it = norm_src(lp.iter)
            if it != "df.columns" and ("names" in names_in(lp.iter) or isinstance(lp.iter, (ast.List, ast.Tuple))):
                col.bad(rule, d.qualname, d.loc(lp), "the permutation covers every column of the table",
                        f"the row permutation runs over `{it}` only: columns outside it (extra columns) keep their old row order "
                        f"and end up on the wrong nodes", stmt="gather-keys", definite=True)


def inplace_permutation(ctx, col):
    """Rows are permuted INTO NEW arrays.  `v[:] = v[perm]` inside a loop over the columns of a tree permutes a buffer once per key that holds it: two keys may
    hold the same array (extra columns built from one array; deepcopy keeps the sharing), and that buffer is then permuted twice."""
    col.rule("R-INPLACEPERM", "the row permutation builds new column arrays: no `v[:] = v[perm]` over the columns of a tree (a buffer shared by two keys would be permuted once "
             "per key and no longer follow the relabelling); zero expected", floor=1)
    hits = 0
    for q in (f"{TU}._sort_tree", f"{NORM}.sort_nodes_"):
        d = ctx.repo.get_def(q)
        for lp in [n for n in own_nodes(d) if isinstance(n, ast.For)]:
            it = norm_src(lp.iter)
            if not any(w in it for w in ("ndata", ".values()", ".items()", ".keys()", "columns")):
                continue
            for st in ast.walk(lp):
                if isinstance(st, ast.Assign) and len(st.targets) == 1 and isinstance(st.targets[0], ast.Subscript) and isinstance(st.value, ast.Subscript) \
                        and norm_src(st.targets[0].value) == norm_src(st.value.value) and isinstance(st.targets[0].slice, (ast.Slice, ast.Constant)) \
                        and not isinstance(st.value.slice, (ast.Slice, ast.Constant)):
                    hits += 1
                    col.bad("R-INPLACEPERM", d.qualname, d.loc(st), "the row permutation builds new column arrays",
                            f"`{norm_src(st)}` permutes each column's buffer in place, once per key: a tree whose columns share one array under two keys gets that buffer permuted "
                            f"twice, so those columns no longer belong to their nodes after sorting / re-rooting / concatenation", stmt="inplace-perm", definite=True)
    if not hits:
        col.ok("R-INPLACEPERM", f"{TU}._sort_tree", "", "the row permutation builds new column arrays", "no in-place permutation of a column inside a loop over the columns", stmt="inplace-perm")


def tree_gather_keys(ctx, col, rule):
    """_sort_tree must permute every key of tree.ndata: a literal / names-derived subset leaves the
    extra per-node columns in their old row order."""
    repo = ctx.repo
    t = repo.get_def(f"{TU}._sort_tree")
    hit = False
    for n in own_nodes(t):
        if isinstance(n, (ast.DictComp, ast.For)):
            g = n.generators[0] if isinstance(n, ast.DictComp) else n
            it = norm_src(g.iter)
            if "ndata" not in it and ("names" in it or "cols" in it or isinstance(g.iter, (ast.List, ast.Tuple))) \
                    and any(isinstance(x, ast.Subscript) and norm_src(x.value).endswith("ndata") for x in ast.walk(n)):
                hit = True
                col.bad(rule, t.qualname, t.loc(n), "the renumbering permutes every key of the tree",
                        f"the row permutation runs over `{it}` only: keys outside it (extra per-node columns) keep their old "
                        f"row order and end up on the wrong nodes", stmt="gather-keys", definite=True)
    if not hit:
        col.ok(rule, t.qualname, t.loc(), "the renumbering permutes every key of the tree (no literal / names-derived key subset)", stmt="gather-keys")


def counter_rule(ctx, col):
    repo = ctx.repo
    R = "R-COUNTER"
    d = repo.get_def(f"{NORM}.sort_nodes_impl")
    q = d.qualname
    items = [
        ("topology is unpacked as (ids, parent ids)", ["old_ids, old_pids = topology"], "unpack"),
        ("single-root premise is asserted", ["assert np.count_nonzero(old_pids == -1) == 1, _any",
                                             "assert np.count_nonzero(old_pids == -1) == 1"], "assert-root"),
        ("new-id -> old-id map is a fresh array of the input's length", ["id_map = np.full_like(old_ids, fill_value=_any)", "id_map = np.empty_like(old_ids)", "id_map = np.zeros_like(old_ids)"], "alloc-map"),
        ("new parent ids are a fresh array of the input's length", ["new_pids = np.full_like(old_ids, fill_value=_any)", "new_pids = np.empty_like(old_ids)", "new_pids = np.zeros_like(old_ids)", "new_pids = np.full_like(old_pids, fill_value=_any)"], "alloc-pids"),
        ("the counter starts at 0 (the root gets id 0)", ["new_id = 0"], "counter-init"),
        ("the work list starts with (the root's id, parent -1)",
         ["first_root = old_ids[(old_pids == -1).argmax()]"], "first-root"),
        ("... as its only frame", ["s = [(first_root, -1)]", "s: list[tuple[npt.NDArray[np.int32], int]] = [(first_root, -1)]"], "init-frame"),
        ("one frame popped per iteration (LIFO)", ["old_id, new_pid = s.pop()"], "pop"),
        ("slot[counter] records the popped old id", ["id_map[new_id] = old_id"], "slot-old"),
        ("slot[counter] records its new parent id", ["new_pids[new_id] = new_pid"], "slot-pid"),
        ("children = rows whose parent id equals the popped id, each pushed with the counter's current value as its new parent",
         ["s.extend(((j, new_id) for j in old_ids[old_pids == old_id]))",
          "for j in old_ids[old_pids == old_id]: s.append((j, new_id))"], "children-push"),
        ("the counter grows by exactly one per iteration", ["new_id = new_id + 1", "new_id += 1"], "counter-inc"),
        ("lookup maps old id -> old row position (ids are never used as positions)",
         ["id2idx = dict(zip(old_ids, range(len(old_ids))))", "id2idx = {old: i for i, old in enumerate(old_ids)}"], "id2idx"),
        ("row index = position of the old id stored in each new slot",
         ["indices = np.array([id2idx[i] for i in id_map], dtype=_any)", "indices = np.array([id2idx[i] for i in id_map])"], "indices"),
        ("new ids are 0..n-1", ["new_ids = np.arange(len(new_pids))", "new_ids = np.arange(len(id_map))", "new_ids = np.arange(len(old_ids))"], "new-ids"),
        ("returns ((new ids, new parent ids), row index)", ["return (new_ids, new_pids), indices"], "return"),
    ]
    col.text_group(R, q, d, items, fixed=("topology",))
    from .. import match
    found = dict(zip([it[2] for it in items], match.find_group(d.node.body, [it[1] for it in items], ("topology",))))
    # the row index must go through the id -> position lookup: using the ids themselves as positions is
    # right only for ids 0..n-1 in file order
    rets = [n for n in own_nodes(d) if isinstance(n, ast.Return)]
    if found["indices"][0] == match.OTHER and found["slot-old"][0] == match.SAME and len(rets) == 1 \
            and isinstance(rets[0].value, ast.Tuple) and len(rets[0].value.elts) == 2:
        idx_e = rets[0].value.elts[1]
        slot = found["slot-old"][1]
        mapname = slot.targets[0].value.id if isinstance(slot, ast.Assign) and isinstance(slot.targets[0], ast.Subscript) \
            and isinstance(slot.targets[0].value, ast.Name) else None
        defs = [n for n in d.node.body if isinstance(n, ast.Assign) and isinstance(idx_e, ast.Name) and norm_src(n.targets[0]) == idx_e.id]
        e = defs[-1].value if defs else idx_e
        uses_lookup = any(isinstance(x, ast.Subscript) and isinstance(x.value, ast.Name) and x.value.id != mapname
                          and any(isinstance(y, ast.Name) for y in ast.walk(x.slice)) for x in ast.walk(e)
                          if isinstance(x, ast.Subscript) and not isinstance(x.slice, ast.Slice))
        direct = mapname is not None and any(isinstance(x, ast.Name) and x.id == mapname for x in ast.walk(e))
        searchsorted = any(isinstance(x, ast.Call) and (dotted(x.func) or "").endswith("searchsorted") and not any(k.arg == "sorter" for k in x.keywords)
                           for x in ast.walk(e))
        if searchsorted:
            col.bad(R, q, d.loc(defs[-1]) if defs else d.loc(rets[0]), "row index = position of the old id stored in each new slot",
                    f"`{norm_src(e)[:80]}`: np.searchsorted without a sorter finds positions only in an ascending id column; for rows in any "
                    f"other order the columns are gathered from the wrong rows", stmt="indices", definite=True)
        elif direct and not uses_lookup:
            col.bad(R, q, d.loc(defs[-1]) if defs else d.loc(rets[0]), "row index = position of the old id stored in each new slot",
                    f"`{norm_src(e)[:80]}` uses the old ids themselves as row positions (right only when ids are 0..n-1 in file order)",
                    stmt="indices", definite=True)
    # order inside the loop body: slot writes and child pushes read the counter before its increment
    if all(found[k][0] == match.SAME for k in ("slot-old", "slot-pid", "children-push", "counter-inc")):
        def top(n):
            while n is not None and not isinstance(repo.parent(n), ast.While):
                n = repo.parent(n)
            return n
        w = repo.parent(top(found["counter-inc"][1]))
        if isinstance(w, ast.While):
            pos = {k: w.body.index(top(found[k][1])) for k in ("slot-old", "slot-pid", "children-push", "counter-inc")
                   if top(found[k][1]) in w.body}
            if len(pos) == 4:
                col.check(max(pos["slot-old"], pos["slot-pid"], pos["children-push"]) < pos["counter-inc"], R, q, d.loc(found["counter-inc"][1]),
                          "the counter is read for the slot and as the children's new parent before its increment", "",
                          "the counter is incremented before it is recorded: slots are shifted by one / children get a parent id equal to their own",
                          stmt="order", definite=True)
                inc_unconditional = top(found["counter-inc"][1]) is found["counter-inc"][1] or isinstance(found["counter-inc"][1], (ast.Assign, ast.AugAssign))
                early = [x for x in ast.walk(w) if isinstance(x, (ast.Break, ast.Continue, ast.Return))]
                col.check(not early, R, q, d.loc(early[0]) if early else d.loc(w), "every popped frame gets a slot: no early exit / skip in the loop", "",
                          f"`{norm_src(early[0]) if early else ''}` skips or ends the renumbering loop", stmt="loop-exit", definite=True)



def reset_before_sort(ctx, col):
    """Re-basing the ids (subtracting the first root's id from every id and parent id) must not run before the renumbering: a node whose parent
    carries the id `root id - 1` gets parent -1, the 'no parent' marker, so the table handed to the sort has a second root (the sort asserts a
    single root, or -- if it did not -- would detach that subtree).  The renumbering makes ids 0..n-1 anyway."""
    col.rule("R-SEQ", "reading with node sorting renumbers the table as read: the id re-basing step (reset_index_) does not run before sort_nodes_ on any path "
             "(it turns the parent id `root id - 1` into the 'no parent' marker -1)", floor=1)
    from ..cfg import CFG
    d = ctx.repo.get_def("swcgeom.core.swc_utils.io.read_swc")
    g = CFG(d.node.body, d.name)
    def calls(name):
        return [n for n in g.nodes if n.ast is not None and n.kind in ("stmt",) and any(
            isinstance(c, ast.Call) and (dotted(c.func) or "").rsplit(".", 1)[-1] == name for c in ast.walk(n.ast))]
    resets, sorts = calls("reset_index_"), calls("sort_nodes_")
    bad = None
    for r in resets:
        reach = g.reachable(r)
        for s_ in sorts:
            if s_ in reach and s_ is not r:
                bad = (r, s_)
    if not sorts:
        col.unresolved("R-SEQ", d.qualname, d.loc(), "re-basing never precedes the renumbering", "no call of sort_nodes_ found in read_swc", stmt="reset-before-sort")
    elif bad is not None:
        col.bad("R-SEQ", d.qualname, d.loc(bad[0].ast), "re-basing never precedes the renumbering",
                f"`{norm_src(bad[0].ast)[:60]}` can be followed by `{norm_src(bad[1].ast)[:60]}`: after re-basing, a node whose parent had the id just below the root's has parent -1, "
                f"so the table that is sorted has two roots -- reading a file whose root does not carry the smallest id fails (or loses a subtree) with sort_nodes=True", stmt="reset-before-sort", definite=True)
    else:
        col.ok("R-SEQ", d.qualname, d.loc(), "re-basing never precedes the renumbering", f"{len(resets)} re-basing call(s), {len(sorts)} sort call(s), never in that order", stmt="reset-before-sort")
