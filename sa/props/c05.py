"""C05 -- node renumbering is a pure relabelling with parents before children."""

from __future__ import annotations

import ast

from ..model import AnalysisError, dotted, norm_src, own_nodes
from ..util import names_in
from .c04 import recursion_free

NORM = "swcgeom.core.swc_utils.normalizer"
TU = "swcgeom.core.tree_utils"


def destructure_sort_call(d, callee="sort_nodes_impl"):
    """`(a, b), c = sort_nodes_impl((x, y))` -> (assign, a, b, c, x, y)"""
    for n in own_nodes(d):
        if isinstance(n, ast.Assign) and isinstance(n.value, ast.Call) \
                and (dotted(n.value.func) or "").split(".")[-1] == callee:
            t = n.targets[0]
            if isinstance(t, ast.Tuple) and len(t.elts) == 2 and isinstance(t.elts[0], ast.Tuple) \
                    and len(t.elts[0].elts) == 2 and isinstance(t.elts[1], ast.Name):
                a, b = [e.id for e in t.elts[0].elts]
                arg = n.value.args[0] if n.value.args else None
                x = y = None
                if isinstance(arg, ast.Tuple) and len(arg.elts) == 2:
                    x, y = arg.elts
                return n, a, b, t.elts[1].id, x, y
    raise AnalysisError(f"anchor-vanished: `(ids, pids), perm = {callee}(...)` in {d.qualname}")


def resolve_local(d, e):
    """Follow a local single assignment `ids, pids = A, B` for a Name."""
    if isinstance(e, ast.Name):
        for n in own_nodes(d):
            if isinstance(n, ast.Assign):
                t = n.targets[0]
                if isinstance(t, ast.Tuple) and isinstance(n.value, ast.Tuple) and len(t.elts) == len(n.value.elts):
                    for te, ve in zip(t.elts, n.value.elts):
                        if isinstance(te, ast.Name) and te.id == e.id:
                            return ve
                elif isinstance(t, ast.Name) and t.id == e.id:
                    return n.value
    return e


def col_role(e):
    """Which column does an expression read: 'id' | 'pid' | None."""
    s = norm_src(e)
    for role in ("pid", "id"):
        if f"names.{role}]" in s or s.endswith(f".{role}()"):
            return role
    return None


def run(ctx, col, tier):
    repo = ctx.repo
    col.rule("R-UNIF", "the row permutation is applied to the container's whole key set, every "
             "column indexed by the permutation component of one renumbering call, ids/parent ids "
             "overwritten by that call's new topology, topology passed as (ids, parent ids)",
             floor=8, shape=True)
    col.rule("R-COUNTER", "DFS renumbering: one pop -> one slot; the new id counter is read for "
             "the slot and as the children's parent before its single unconditional increment and "
             "is never decreased; children are selected by parent id == popped id; new ids are "
             "0..n-1; the row index is old-id -> old-position", floor=12, exhaustive=True, shape=True)
    col.rule("R-CG", "renumbering is recursion-free", floor=2)
    col.assumptions += ["single-rooted input (asserted by the code)", "numpy fancy indexing copies"]
    col.not_decided += ["bijectivity as a statement about values", "idempotence up to sibling order"]

    # ---------------- R-UNIF: table form
    d = repo.get_def(f"{NORM}.sort_nodes_")
    asg, a, b, perm, x, y = destructure_sort_call(d)
    x, y = resolve_local(d, x), resolve_local(d, y)
    col.check(x is not None and col_role(x) == "id" and col_role(y) == "pid", "R-UNIF", d.qualname,
              d.loc(asg), "topology argument is (id column, parent-id column)",
              f"({norm_src(x) if x is not None else None}, {norm_src(y) if y is not None else None})",
              "renumbering is not called with (ids, parent ids)", stmt="topology-arg")
    loops = [n for n in own_nodes(d) if isinstance(n, ast.For)]
    ok, txt = False, ""
    if len(loops) == 1:
        lp = loops[0]
        txt = norm_src(lp)
        cv = lp.target.id if isinstance(lp.target, ast.Name) else None
        body = [s for s in lp.body if isinstance(s, ast.Assign)]
        ok = norm_src(lp.iter) == "df.columns" and len(lp.body) == 1 and len(body) == 1 \
            and norm_src(body[0].targets[0]) == f"df[{cv}]" \
            and any(isinstance(s, ast.Subscript) and norm_src(s.slice) == perm
                    and norm_src(s.value) == f"df[{cv}]" for s in ast.walk(body[0].value)) \
            and "to_numpy" in norm_src(body[0].value)
    col.check(ok, "R-UNIF", d.qualname, d.loc(loops[0]) if loops else d.loc(),
              "every column of the table (df.columns, extra columns included) is permuted by the "
              "same index, detached from the old row labels", txt,
              "the permutation is not applied to all of df.columns with the renumbering's index",
              stmt="gather")
    after = [n for n in own_nodes(d) if isinstance(n, ast.Assign) and isinstance(n.targets[0], ast.Tuple)
             and norm_src(n.value) == f"({a}, {b})"]
    ok = len(after) == 1 and [col_role(t) for t in after[0].targets[0].elts] == ["id", "pid"] \
        and after[0].lineno > loops[0].lineno if loops else False
    col.check(ok, "R-UNIF", d.qualname, d.loc(after[0]) if after else d.loc(),
              "id / parent-id columns are overwritten by the new topology after the gather",
              norm_src(after[0]) if after else "", "ids/pids are not replaced by (new_ids, new_pids)",
              stmt="overwrite")

    # ---------------- R-UNIF: tree form
    t = repo.get_def(f"{TU}._sort_tree")
    asg, a, b, perm, x, y = destructure_sort_call(t)
    col.check(x is not None and norm_src(x) == "tree.id()" and norm_src(y) == "tree.pid()", "R-UNIF",
              t.qualname, t.loc(asg), "topology argument is (tree.id(), tree.pid())",
              f"({norm_src(x) if x is not None else None}, {norm_src(y) if y is not None else None})",
              "renumbering is not called with (ids, parent ids)", stmt="topology-arg")
    comps = [n for n in own_nodes(t) if isinstance(n, ast.DictComp)]
    ok, txt = False, ""
    if len(comps) == 1:
        dc = comps[0]
        g = dc.generators[0]
        txt = norm_src(dc)
        kv = g.target.id if isinstance(g.target, ast.Name) else None
        ok = norm_src(g.iter) in ("tree.ndata", "tree.ndata.keys()", "tree.keys()") and not g.ifs \
            and norm_src(dc.key) == kv and norm_src(dc.value) == f"tree.ndata[{kv}][{perm}]"
        par = repo.parent(dc)
        ok = ok and isinstance(par, ast.Assign) and norm_src(par.targets[0]) == "tree.ndata"
    col.check(ok, "R-UNIF", t.qualname, t.loc(comps[0]) if comps else t.loc(),
              "every key of tree.ndata is permuted by the same index into a new dict", txt,
              "the permutation is not applied to every key of tree.ndata with the renumbering's index",
              stmt="gather")
    ups = [n for n in own_nodes(t) if isinstance(n, ast.Call) and norm_src(n.func) == "tree.ndata.update"]
    ok = len(ups) == 1 and {k.arg: norm_src(k.value) for k in ups[0].keywords} == {"id": a, "pid": b} \
        and comps and ups[0].lineno > comps[0].lineno
    col.check(ok, "R-UNIF", t.qualname, t.loc(ups[0]) if ups else t.loc(),
              "id / pid are overwritten by the new topology after the gather",
              norm_src(ups[0]) if ups else "", "ids/pids are not replaced by (new_ids, new_pids)",
              stmt="overwrite")
    st = repo.get_def(f"{TU}.sort_tree")
    rets = [n for n in own_nodes(st) if isinstance(n, ast.Return)]
    ok = len(rets) == 1 and norm_src(rets[0].value) == "_sort_tree(tree.copy())"
    col.check(ok, "R-UNIF", st.qualname, st.loc(), "sort_tree sorts a copy",
              norm_src(rets[0].value) if rets else "", "sort_tree does not sort a copy of its input",
              stmt="copy")
    # read_swc(sort_nodes=True) -> sort_nodes_(df)
    rs = repo.get_def("swcgeom.core.swc_utils.io.read_swc")
    ok = any(isinstance(n, ast.If) and norm_src(n.test) == "sort_nodes"
             and any(isinstance(c, ast.Call) and dotted(c.func) == "sort_nodes_" and norm_src(c.args[0]) == "df"
                     for s in n.body for c in ast.walk(s)) for n in own_nodes(rs))
    col.check(ok, "R-UNIF", rs.qualname, rs.loc(), "read_swc(sort_nodes=True) renumbers the table "
              "it read", "", "the sort_nodes option does not call sort_nodes_(df)", stmt="read-sort")
    # copying wrapper
    ca = repo.get_def(f"{NORM}._copy_and_apply")
    body = [norm_src(s) for s in ca.node.body]
    ok = body == ["df = df.copy()", "fn(df, *args, **kwargs)", "return df"]
    col.check(ok, "R-UNIF", ca.qualname, ca.loc(), "the non-underscore forms work on a copy",
              "; ".join(body), "copy-and-apply wrapper does not copy, apply and return the copy",
              stmt="copy-apply")

    col.guard(counter_rule, ctx, col)

    for q, what in ((f"{TU}.sort_tree", "sort_tree"), (f"{NORM}.sort_nodes_", "sort_nodes_")):
        recursion_free(ctx, col, "R-CG", [q], f"recursion-free from {what}")


def counter_rule(ctx, col):
    repo = ctx.repo
    R = "R-COUNTER"
    d = repo.get_def(f"{NORM}.sort_nodes_impl")
    q = d.qualname
    whiles = [n for n in own_nodes(d) if isinstance(n, ast.While)]
    if len(whiles) != 1:
        raise AnalysisError("anchor-vanished: the work-list loop of sort_nodes_impl")
    loop = whiles[0]
    # topology unpacking
    unp = d.node.body[0] if not isinstance(d.node.body[0], ast.Expr) else d.node.body[1]
    if not (isinstance(unp, ast.Assign) and isinstance(unp.targets[0], ast.Tuple)
            and norm_src(unp.value) == "topology"):
        raise AnalysisError("anchor-vanished: `old_ids, old_pids = topology`")
    ids, pids = [e.id for e in unp.targets[0].elts]
    # pop
    pops = [n for n in ast.walk(loop) if isinstance(n, ast.Call) and isinstance(n.func, ast.Attribute)
            and n.func.attr == "pop" and norm_src(n.func.value) in names_in(loop.test)]
    if len(pops) != 1 or not isinstance(repo.parent(pops[0]), ast.Assign):
        raise AnalysisError("anchor-vanished: `old_id, new_pid = s.pop()`")
    stack = norm_src(pops[0].func.value)
    pst = repo.parent(pops[0])
    cur_old, cur_pid = [e.id for e in pst.targets[0].elts]
    col.check(not pops[0].args and loop.body[0] is pst, R, q, d.loc(pops[0]),
              "one frame popped per iteration, first thing in the body", norm_src(pst),
              "pop is not the unconditional first statement / not LIFO", stmt="pop")
    # counter: the name incremented in the loop
    incs = []
    for s in ast.walk(loop):
        if isinstance(s, ast.AugAssign) and isinstance(s.target, ast.Name):
            incs.append((s, s.target.id, s.op, s.value))
        elif isinstance(s, ast.Assign) and isinstance(s.targets[0], ast.Name) and isinstance(s.value, ast.BinOp) \
                and isinstance(s.value.left, ast.Name) and s.value.left.id == s.targets[0].id:
            incs.append((s, s.targets[0].id, s.value.op, s.value.right))
    if len(incs) != 1:
        col.bad(R, q, d.loc(loop), "exactly one counter update in the loop",
                f"{len(incs)} updates: {[norm_src(i[0]) for i in incs]}", stmt="counter-updates")
        return
    inc, cnt, op, amount = incs[0]
    ok = isinstance(op, ast.Add) and isinstance(amount, ast.Constant) and amount.value == 1 \
        and inc in loop.body
    col.check(ok, R, q, d.loc(inc), "the counter grows by exactly one per iteration, unconditionally",
              norm_src(inc), f"`{norm_src(inc)}` is conditional, not +1, or decreases", stmt="counter-inc")
    init = [n for n in d.node.body if isinstance(n, ast.Assign) and norm_src(n.targets[0]) == cnt]
    ok = len(init) == 1 and isinstance(init[0].value, ast.Constant) and init[0].value.value == 0
    col.check(ok, R, q, d.loc(init[0]) if init else d.loc(), "the counter starts at 0 (root gets id 0)",
              norm_src(init[0]) if init else "", "counter does not start at 0", stmt="counter-init")
    pos = {id(s): i for i, s in enumerate(loop.body)}
    inc_i = pos.get(id(inc), -1)
    # slot writes
    writes = [s for s in loop.body if isinstance(s, ast.Assign) and isinstance(s.targets[0], ast.Subscript)
              and norm_src(s.targets[0].slice) == cnt]
    w_old = [s for s in writes if norm_src(s.value) == cur_old]
    w_pid = [s for s in writes if norm_src(s.value) == cur_pid]
    ok = len(w_old) == 1 and len(w_pid) == 1 and len(writes) == 2 and \
        all(pos[id(s)] < inc_i for s in writes)
    col.check(ok, R, q, d.loc(writes[0]) if writes else d.loc(loop),
              "slot[counter] records the popped old id and its new parent id, before the increment",
              "; ".join(norm_src(s) for s in writes),
              "the new-id slot is not written exactly once with (old id, new parent) before the increment",
              stmt="slot-writes")
    id_map = norm_src(w_old[0].targets[0].value) if w_old else None
    new_pids = norm_src(w_pid[0].targets[0].value) if w_pid else None
    # children push
    ext = [s for s in loop.body if isinstance(s, ast.Expr) and isinstance(s.value, ast.Call)
           and norm_src(s.value.func) in (f"{stack}.extend", f"{stack}.append")]
    ok, txt = False, ""
    if len(ext) == 1 and norm_src(ext[0].value.func).endswith("extend") and \
            isinstance(ext[0].value.args[0], ast.GeneratorExp):
        ge = ext[0].value.args[0]
        txt = norm_src(ge)
        g = ge.generators[0]
        sel = norm_src(g.iter)
        ok = isinstance(ge.elt, ast.Tuple) and norm_src(ge.elt.elts[0]) == norm_src(g.target) \
            and norm_src(ge.elt.elts[1]) == cnt and not g.ifs \
            and sel == f"{ids}[{pids} == {cur_old}]" and pos[id(ext[0])] < inc_i
    col.check(ok, R, q, d.loc(ext[0]) if ext else d.loc(loop),
              "children = rows whose parent id equals the popped id; each is pushed with the "
              "counter's current value as its new parent, before the increment", txt,
              "children are not pushed as (child id, current new id) for ids[pids == popped id] "
              "before the increment (a parent id >= child id or a lost node becomes possible)",
              stmt="children-push")
    # initial frame
    sinit = [n for n in d.node.body if isinstance(n, (ast.Assign, ast.AnnAssign))
             and norm_src(n.targets[0] if isinstance(n, ast.Assign) else n.target) == stack]
    ok = len(sinit) == 1 and isinstance(sinit[0].value, ast.List) and len(sinit[0].value.elts) == 1 \
        and isinstance(sinit[0].value.elts[0], ast.Tuple) \
        and norm_src(sinit[0].value.elts[0].elts[1]) == "-1"
    root_e = resolve_local(d, sinit[0].value.elts[0].elts[0]) if ok else None
    ok = ok and norm_src(root_e) == f"{ids}[({pids} == -1).argmax()]"
    col.check(ok, R, q, d.loc(sinit[0]) if sinit else d.loc(), "work list starts with (the root's "
              "id, parent -1)", norm_src(sinit[0]) if sinit else "",
              "initial frame is not (id of the row whose parent is -1, -1)", stmt="init-frame")
    # allocation of outputs sized like the input
    for nm, what in ((id_map, "new-id -> old-id map"), (new_pids, "new parent ids")):
        a = [n for n in d.node.body if isinstance(n, ast.Assign) and norm_src(n.targets[0]) == nm]
        ok = len(a) == 1 and isinstance(a[0].value, ast.Call) and dotted(a[0].value.func) in (
            "np.full_like", "np.zeros_like", "np.empty_like") and norm_src(a[0].value.args[0]) in (ids, pids)
        col.check(ok, R, q, d.loc(a[0]) if a else d.loc(), f"{what} is a fresh array of the input's length",
                  norm_src(a[0]) if a else "", f"{nm} is not allocated like the input", stmt=f"alloc:{nm}")
    # outputs, by role: return ((NEW_IDS, NEW_PIDS), INDEX)
    tail = [n for n in d.node.body if d.node.body.index(n) > d.node.body.index(loop)]
    src = {norm_src(n.targets[0]): n for n in tail if isinstance(n, ast.Assign)}
    rets = [n for n in own_nodes(d) if isinstance(n, ast.Return)]
    rv = rets[0].value if len(rets) == 1 else None
    shape = isinstance(rv, ast.Tuple) and len(rv.elts) == 2 and isinstance(rv.elts[0], ast.Tuple) \
        and len(rv.elts[0].elts) == 2 and all(isinstance(e, ast.Name) for e in rv.elts[0].elts) \
        and isinstance(rv.elts[1], ast.Name)
    if not shape:
        col.unresolved(R, q, d.loc(rets[0]) if rets else d.loc(), "return shape", "not ((ids, pids), index)",
                       stmt="return")
        return
    r_ids, r_pids, r_idx = rv.elts[0].elts[0].id, rv.elts[0].elts[1].id, rv.elts[1].id
    col.check(r_pids == new_pids, R, q, d.loc(rets[0]), "returned parent ids are the array filled in the loop",
              norm_src(rv), f"returns `{r_pids}` as parent ids, the loop fills `{new_pids}`", stmt="return")
    ix = src.get(r_idx)
    lc = None
    if ix is not None:
        for n in ast.walk(ix.value):
            if isinstance(n, ast.ListComp) and isinstance(n.elt, ast.Subscript):
                lc = n
    if lc is None and ix is not None and id_map in names_in(ix.value):
        col.bad(R, q, d.loc(ix), "row index = position of the old id stored in each new slot "
                "(ids are never used as positions)",
                f"`{norm_src(ix.value)}` uses the old ids themselves as row positions (only right when "
                f"ids are 0..n-1 in file order)", stmt="indices")
    elif lc is None:
        col.unresolved(R, q, d.loc(ix) if ix is not None else d.loc(), "row index", "not a list comprehension of lookups",
                       stmt="indices")
    else:
        lookup = norm_src(lc.elt.value)
        m = src.get(lookup)
        ok = m is not None and norm_src(m.value) == f"dict(zip({ids}, range(len({ids}))))"
        col.judge(m is not None and isinstance(m.value, ast.Call), ok, R, q, d.loc(m) if m is not None else d.loc(),
                  "lookup maps old id -> old row position", norm_src(m.value) if m is not None else "",
                  f"`{norm_src(m.value) if m is not None else None}` is not dict(zip(ids, range(n)))", stmt="id2idx")
        ok = norm_src(lc.elt.slice) == norm_src(lc.generators[0].target) and norm_src(lc.generators[0].iter) == id_map \
            and not lc.generators[0].ifs
        col.check(ok, R, q, d.loc(ix), "row index = position of the old id stored in each new slot "
                  "(ids are never used as positions)", norm_src(ix.value),
                  f"row index `{norm_src(lc)}` does not look up every entry of {id_map}", stmt="indices")
    ni = src.get(r_ids)
    ok = ni is not None and norm_src(ni.value) in (f"np.arange(len({new_pids}))", f"np.arange(len({id_map}))",
                                                   f"np.arange(len({ids}))", f"np.arange({ids}.shape[0])")
    col.judge(ni is not None and isinstance(ni.value, ast.Call), ok, R, q, d.loc(ni) if ni is not None else d.loc(),
              "new ids are 0..n-1", norm_src(ni.value) if ni is not None else "",
              f"new ids `{norm_src(ni.value) if ni is not None else None}` are not arange(n)", stmt="new-ids")
    asserts = [n for n in d.node.body if isinstance(n, ast.Assert)]
    ok = any(norm_src(a.test) == f"np.count_nonzero({pids} == -1) == 1" for a in asserts)
    col.check(ok, R, q, d.loc(asserts[0]) if asserts else d.loc(), "single-root premise is asserted",
              "", "no single-root assertion", stmt="assert-root")
    t = norm_src(loop.test)
    ok = t in (f"len({stack}) != 0", f"len({stack}) > 0", stack) and \
        not any(isinstance(x, (ast.Break, ast.Continue, ast.Return)) for x in ast.walk(loop))
    col.check(ok, R, q, d.loc(loop), "loop runs until the work list is empty", t,
              "early exit from the renumbering loop", stmt="loop-cond")
