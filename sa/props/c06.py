"""C06 -- subtree extraction and pruning keep exactly the specified nodes."""

from __future__ import annotations

import ast

from ..fold import Folder, Unfoldable
from ..model import AnalysisError, dotted, norm_src, own_nodes
from ..util import const_int, kwarg, names_in
from .c03 import analyse
from .c04 import recursion_free
from .c05 import destructure_sort_call
from .. import own

SUB = "swcgeom.core.swc_utils.subtree"
IMPL = "swcgeom.core.tree_utils_impl"
TU = "swcgeom.core.tree_utils"


def _fixed_columns(e) -> bool:
    """the iterated keys are a fixed list of the standard SWC columns (`names.cols()`, a literal list of names): provably not the
    source's own key set, whatever else the function does"""
    if isinstance(e, (ast.List, ast.Tuple)):
        return True
    if isinstance(e, ast.Call) and isinstance(e.func, ast.Attribute) and e.func.attr == "cols" and not e.args:
        return True
    if isinstance(e, ast.BinOp) and isinstance(e.op, ast.Add):
        return _fixed_columns(e.left) and _fixed_columns(e.right)
    return False


def gather_rule(ctx, col, d, src_name, keys_exprs, what):
    """`(new_id, new_pid), mapping = to_sub_topology(..)`;
    `ndata = {k: SRC.get_ndata(k)[mapping].copy() for k in SRC.keys()}`; update(id=, pid=)."""
    repo = ctx.repo
    asg, a, b, mp, _, _ = destructure_sort_call(d, "to_sub_topology")
    comps = [n for n in own_nodes(d) if isinstance(n, ast.DictComp)]
    cands = [c for c in comps if any(isinstance(x, ast.Attribute) and x.attr == "get_ndata" for x in ast.walk(c))]
    if len(cands) != 1:
        col.unresolved("R-UNIF", d.qualname, d.loc(), f"{what}: gather", "no single column gather comprehension")
        return
    dc = cands[0]
    g = dc.generators[0]
    kv = g.target.id if isinstance(g.target, ast.Name) else None
    iter_ok = norm_src(g.iter) in keys_exprs and not g.ifs
    col.check(iter_ok, "R-UNIF", d.qualname, d.loc(dc), f"{what}: gather covers the source's whole key set",
              norm_src(g.iter), f"gather iterates `{norm_src(g.iter)}`"
              + (" with a filter" if g.ifs else "") + f", not every key of the source ({keys_exprs[0]}): "
              "extra columns / attributes would be dropped", stmt="gather-keys", definite=_fixed_columns(g.iter) or bool(g.ifs))
    idx = [s for s in ast.walk(dc.value) if isinstance(s, ast.Subscript)
           and isinstance(s.value, ast.Call) and isinstance(s.value.func, ast.Attribute)
           and s.value.func.attr == "get_ndata"]
    ok = len(idx) == 1 and norm_src(idx[0].slice) == mp and norm_src(idx[0].value.args[0]) == kv \
        and norm_src(idx[0].value.func.value) == src_name and norm_src(dc.key) == kv
    col.check(ok, "R-UNIF", d.qualname, d.loc(dc), f"{what}: every column indexed by the mapping of the same call",
              norm_src(dc.value), f"column gather `{norm_src(dc.value)}` does not index column k of "
              f"`{src_name}` with `{mp}` (the mapping returned by to_sub_topology)", stmt="gather-index")
    ups = [n for n in own_nodes(d) if isinstance(n, ast.Call) and isinstance(n.func, ast.Attribute)
           and n.func.attr == "update" and {k.arg for k in n.keywords} == {"id", "pid"}]
    ok = len(ups) == 1 and {k.arg: norm_src(k.value) for k in ups[0].keywords} == {"id": a, "pid": b} \
        and ups[0].lineno > dc.lineno
    col.check(ok, "R-UNIF", d.qualname, d.loc(ups[0]) if ups else d.loc(),
              f"{what}: id/pid replaced by the new topology of the same call",
              norm_src(ups[0]) if ups else "", "id/pid are not overwritten with (new_id, new_pid)",
              stmt="overwrite")
    return mp


def run(ctx, col, tier):
    repo = ctx.repo
    from ..rules import endpoints as _endpoints
    _endpoints.run(ctx, col, ('swcgeom.core.tree', 'swcgeom.core.path', 'swcgeom.core.branch', 'swcgeom.core.node', 'swcgeom.core.tree_utils', 'swcgeom.core.tree_utils_impl', 'swcgeom.core.swc_utils.base', 'swcgeom.core.swc_utils.subtree', 'swcgeom.core.swc_utils.normalizer', 'swcgeom.core.swc_utils.io'))
    from ..rules import stateless as _stateless_memo
    _stateless_memo.run_memo(ctx, col)
    from ..rules import smalllints as _small
    _small.run_rounds(ctx, col, ('swcgeom.core.swc_utils.subtree', 'swcgeom.core.swc_utils.base', 'swcgeom.core.tree_utils', 'swcgeom.core.tree_utils_impl'))
    from ..rules import loopvar as _loopvar
    _loopvar.run(ctx, col, ('swcgeom.core.tree', 'swcgeom.core.tree_utils', 'swcgeom.core.tree_utils_impl', 'swcgeom.core.swc_utils.base', 'swcgeom.core.swc_utils.subtree', 'swcgeom.core.swc_utils.normalizer', 'swcgeom.core.swc_utils.assembler', 'swcgeom.core.swc_utils.io', 'swcgeom.transforms.tree', 'swcgeom.transforms.branch_tree'))
    from ..rules import rowslice as _rowslice
    _rowslice.run(ctx, col, ('swcgeom.core.tree', 'swcgeom.core.tree_utils', 'swcgeom.core.tree_utils_impl', 'swcgeom.core.swc_utils.base', 'swcgeom.core.swc_utils.subtree', 'swcgeom.core.swc_utils.normalizer', 'swcgeom.transforms.tree'))
    from ..rules import rootpos as _rootpos
    _rootpos.run(ctx, col, ('swcgeom.core.tree_utils', 'swcgeom.core.tree_utils_impl', 'swcgeom.core.tree', 'swcgeom.transforms.tree', 'swcgeom.core.swc_utils.subtree'))
    col.rule("R-UNIF", "kept nodes' columns are gathered for the source's whole key set with the "
             "single old-id mapping returned by the compaction call; id/pid come from the same call; "
             "the reported mapping is filled from that very value", floor=9, shape=True)
    col.rule("R-SENT", "root / removal markers: the new root's parent is reset to -1 on every "
             "path, compaction maps -1 to -1, the removal marker is negative and different from "
             "-1, removal is inherited by descendants", floor=5, shape=True)
    col.rule("R-COMPACT", "compaction keeps exactly the unmarked rows (same mask for ids and "
             "parents), numbers them 0..m-1 in order and remaps parents through old->new", floor=6, shape=True)
    col.rule("R-SELECT", "selection rules: subtree = pre-order descendants from the start node; "
             "removal set marks exactly the given ids; cut callbacks / type / order rules feed "
             "that set as stated (decision tables)", floor=10, shape=True)
    col.rule("R-STATE", "applying a transform leaves the transform object unchanged: no method other than __init__ "
             "assigns to self or mutates a container held by self without undoing it (stale removal lists, "
             "a matrix conjugated twice, a cached array shared between results); zero expected, positive examples kept", floor=1)
    col.rule("R-CG", "recursion-free", floor=3)
    col.rule("R-ORDER", "no recurrence along the node numbering in the selection / compaction code: "
             "no loop over rows in storage order reads, at the row's parent, an array it fills in "
             "that loop (right only when parents are stored before children); zero expected, "
             "positive examples kept", floor=1)
    col.rule("R-PURE", "operations leave the source untouched and return fresh storage (shared "
             "with C03)", floor=6)
    col.not_decided += ["tip-branch length threshold arithmetic (values)", "callback results at run time"]
    col.assumptions += ["well-formed source tree: ids equal positions (premise of the property)"]

    # ------------------------------------------------ R-UNIF
    d = repo.get_def(f"{IMPL}.to_subtree_impl")
    mp = gather_rule(ctx, col, d, "swc_like", ["swc_like.keys()"], "to_subtree_impl")
    # out_mapping
    ext = [n for n in own_nodes(d) if isinstance(n, ast.Call) and norm_src(n.func) == "out_mapping.extend"]
    ok = len(ext) == 1 and norm_src(ext[0].args[0]) == mp
    col.check(ok, "R-UNIF", d.qualname, d.loc(ext[0]) if ext else d.loc(), "list mapping = new id -> old id",
              norm_src(ext[0]) if ext else "", "the list mapping is not filled from the compaction mapping",
              stmt="out-list")
    loops = [n for n in own_nodes(d) if isinstance(n, ast.For) and isinstance(n.iter, ast.Call)
             and dotted(n.iter.func) == "enumerate"]
    ok = False
    txt = ""
    if len(loops) == 1:
        lp = loops[0]
        txt = norm_src(lp)
        i, v = [e.id for e in lp.target.elts]
        st = [s for s in lp.body if isinstance(s, ast.Assign)]
        ok = norm_src(lp.iter.args[0]) == mp and len(st) == 1 and \
            norm_src(st[0].targets[0]) == f"out_mapping[{i}]" and norm_src(st[0].value) == v
    col.check(ok, "R-UNIF", d.qualname, d.loc(loops[0]) if loops else d.loc(), "dict mapping = {new id: old id}",
              txt, "the dict mapping is not {position: old id} over the compaction mapping", stmt="out-dict")
    clears = [n for n in own_nodes(d) if isinstance(n, ast.Call) and norm_src(n.func) == "out_mapping.clear"]
    col.check(len(clears) == 2, "R-UNIF", d.qualname, d.loc(), "previous content of the reported mapping is cleared",
              f"{len(clears)} clears", "stale entries can survive in the reported mapping", stmt="out-clear")
    col.guard(out_mapping_reset, ctx, col, d)
    rets = [n for n in own_nodes(d) if isinstance(n, ast.Return)]
    ok = len(rets) == 1 and isinstance(rets[0].value, ast.Tuple) and \
        [norm_src(e) for e in rets[0].value.elts] == ["n_nodes", "ndata", "swc_like.source", "swc_like.names"]
    nn = [n for n in own_nodes(d) if isinstance(n, ast.Assign) and norm_src(n.targets[0]) == "n_nodes"]
    ok = ok and len(nn) == 1 and norm_src(nn[0].value) in ("new_id.shape[0]", "len(new_id)", "len(mapping)", "mapping.shape[0]")
    col.check(ok, "R-UNIF", d.qualname, d.loc(rets[0]) if rets else d.loc(), "returns (count of kept nodes, columns, source, names)",
              "", "tree arguments are not (number of kept nodes, gathered columns, source, names)", stmt="ret")
    d2 = repo.get_def(f"{TU}.to_sub_tree")
    from ..rules import ignoredparam
    ignoredparam.run(ctx, col, ('swcgeom.transforms.tree', 'swcgeom.core.tree_utils', 'swcgeom.core.tree_utils_impl', 'swcgeom.core.swc_utils.subtree'))
    col.guard(gather_rule, ctx, col, d2, "swc_like", ["swc_like.keys()"], "to_sub_tree (deprecated)")
    d3 = repo.get_def("swcgeom.core.branch_tree.BranchTree.from_tree")
    col.guard(gather_rule, ctx, col, d3, "tree", ["tree.keys()"], "BranchTree.from_tree")

    from ..rules import orderdep
    col.guard(orderdep.check, ctx, col, "R-ORDER", (SUB, IMPL, TU, "swcgeom.transforms.tree", "swcgeom.core.swc_utils.base"),
              "subtree / pruning code")
    from ..rules import stateless
    col.guard(stateless.check, ctx, col, "R-STATE", ("swcgeom.transforms.tree", "swcgeom.transforms.geometry", "swcgeom.transforms.branch", "swcgeom.transforms.branch_tree", "swcgeom.transforms.base", "swcgeom.transforms.path", "swcgeom.transforms.population"))
    col.guard(anchored, ctx, col)
    col.guard(sentinels, ctx, col)
    col.guard(compaction, ctx, col)
    col.guard(selection, ctx, col)
    col.guard(node_subtree_start, ctx, col)
    col.guard(iterables_once, ctx, col)
    col.guard(subtree_order, ctx, col)

    for q, what in ((f"{TU}.get_subtree", "get_subtree"), (f"{TU}.to_subtree", "to_subtree"),
                    (f"{TU}.cut_tree", "cut_tree")):
        recursion_free(ctx, col, "R-CG", [q], f"recursion-free from {what}")

    for q, self_q in ((f"{TU}.get_subtree", None), (f"{TU}.to_subtree", None), (f"{TU}.cut_tree", None),
                      ("swcgeom.core.tree.Tree.Node.subtree", None),
                      ("swcgeom.transforms.tree.CutByType.__call__", "swcgeom.transforms.tree.CutByType"),
                      ("swcgeom.transforms.tree.CutShortTipBranch.__call__", "swcgeom.transforms.tree.CutShortTipBranch")):
        d = repo.get_def(q)
        I, r, _ = analyse(ctx, d, repo.get_class(self_q) if self_q else None)
        fresh = isinstance(r, own.Obj) and not own.storage_owners(r)
        col.check(not I.effects and fresh, "R-PURE", self_q or q, d.loc(), "source untouched, result fresh",
                  f"{I.stores_seen} stores met",
                  (f"write through input alias at {I.effects[0].where()}" if I.effects else
                   "result shares storage with the source"), stmt="pure")


def sentinels(ctx, col):
    repo = ctx.repo
    m = repo.get_module(SUB)
    b = m.bindings.get("REMOVAL")
    v = const_int(b.target) if b is not None and isinstance(b.target, ast.AST) else None
    col.judge(v is not None, v is not None and v < 0 and v != -1, "R-SENT", f"{SUB}.REMOVAL",
              f"{m.relpath}:{b.node.lineno if b else 0}", "removal marker is negative and not the root marker -1",
              str(v), f"REMOVAL = {v} collides with a valid id or with the root marker", stmt="REMOVAL")
    # get_subtree_impl: new root's parent reset
    d = repo.get_def(f"{IMPL}.get_subtree_impl")
    g = ctx.cfg(d)
    resets = [n for n in g.nodes if n.kind == "stmt" and isinstance(n.ast, ast.Assign)
              and isinstance(n.ast.targets[0], ast.Subscript) and const_int(n.ast.targets[0].slice) == 0
              and const_int(n.ast.value) == -1]
    rets = [n for n in g.nodes if n.kind == "stmt" and isinstance(n.ast, ast.Return)]
    ok = bool(resets) and all(g.must_pass(g.entry, [r], lambda n: n in resets,
                                           edge_ok=lambda a, b, l: l != "exc") for r in rets)
    arr = norm_src(resets[0].ast.targets[0].value) if resets else None
    # the array reset is the parent array handed to to_subtree_impl
    call = [n for n in own_nodes(d) if isinstance(n, ast.Call) and dotted(n.func) == "to_subtree_impl"]
    ok2 = len(call) == 1 and isinstance(call[0].args[1], ast.Tuple) and norm_src(call[0].args[1].elts[1]) == arr
    col.check(ok and ok2, "R-SENT", d.qualname, d.loc(resets[0].ast) if resets else d.loc(),
              "the first collected node (the start node) gets parent -1 on every path",
              norm_src(resets[0].ast) if resets else "",
              "the new root keeps its old parent id on some path (KeyError / dangling parent)", stmt="root-reset")
    # to_sub_topology maps -1 to -1
    t = repo.get_def(f"{SUB}.to_sub_topology")
    lcs = [n for n in own_nodes(t) if isinstance(n, ast.ListComp) and isinstance(n.elt, ast.IfExp)]
    ok = False
    txt = ""
    if len(lcs) == 1:
        ie = lcs[0].elt
        v = norm_src(lcs[0].generators[0].target)
        txt = norm_src(ie)
        cond_ne = norm_src(ie.test) in (f"{v} != -1",) and const_int(ie.orelse) == -1 and \
            isinstance(ie.body, ast.Subscript) and norm_src(ie.body.slice) == v
        cond_eq = norm_src(ie.test) in (f"{v} == -1",) and const_int(ie.body) == -1 and \
            isinstance(ie.orelse, ast.Subscript) and norm_src(ie.orelse.slice) == v
        ok = cond_ne or cond_eq
    defaulted = [n for n in own_nodes(t) if isinstance(n, ast.ListComp) and isinstance(n.elt, ast.Call)
                 and isinstance(n.elt.func, ast.Attribute) and n.elt.func.attr == "get" and len(n.elt.args) == 2
                 and const_int(n.elt.args[1]) == -1]
    if not lcs and defaulted:
        col.bad("R-SENT", t.qualname, t.loc(defaulted[0]), "parent remap: -1 stays -1, every other parent goes through old->new",
                f"`{norm_src(defaulted[0].elt)}` maps every parent that is not among the kept nodes to -1: a survivor whose "
                f"parent was dropped silently becomes a second root instead of being an error", stmt="remap")
    else:
        col.judge(len(lcs) == 1, ok, "R-SENT", t.qualname, t.loc(lcs[0]) if lcs else t.loc(),
                  "parent remap: -1 stays -1, every other parent goes through old->new", txt,
                  f"`{txt}` does not keep the root marker / remap the others", stmt="remap")
    # propagate_removal
    p = repo.get_def(f"{SUB}.propagate_removal")
    cb = p.nested.get("propagate")
    if cb is None:
        raise AnalysisError("anchor-vanished: propagate_removal.<locals>.propagate")
    n_, par = cb.params[:2]
    rets = [n for n in own_nodes(cb) if isinstance(n, ast.Return)]
    walrus = [n for n in own_nodes(cb) if isinstance(n, ast.NamedExpr)]
    cond = walrus[0].value if walrus else None
    ok = False
    if isinstance(cond, ast.BoolOp) and isinstance(cond.op, ast.Or) and len(cond.values) == 2:
        s = [norm_src(v) for v in cond.values]
        ok = f"bool({par})" in s or par in s
        ok = ok and any("== REMOVAL" in x and f"[{n_}]" in x for x in s)
    flag = walrus[0].target.id if walrus else None
    ok = ok and len(rets) == 1 and norm_src(rets[0].value) == flag
    marks = [n for n in own_nodes(cb) if isinstance(n, ast.Assign) and norm_src(n.value) == "REMOVAL"
             and isinstance(n.targets[0], ast.Subscript) and norm_src(n.targets[0].slice) == n_]
    ok = ok and len(marks) == 1
    col.judge(bool(walrus) and bool(rets), ok, "R-SENT", cb.qualname, cb.loc(),
              "a node is removed iff its parent was removed or it is marked; the flag is handed to its children",
              norm_src(cond) if cond is not None else "",
              "removal is not `parent removed or marked`, or the flag is not what the children receive",
              stmt="propagate")
    # traverse is called with enter=propagate over (arange(n), pids)
    tc = [n for n in own_nodes(p) if isinstance(n, ast.Call) and dotted(n.func) == "traverse"]
    ok = len(tc) == 1 and kwarg(tc[0], "enter") is not None and norm_src(kwarg(tc[0], "enter")) == "propagate" \
        and kwarg(tc[0], "leave") is None
    ids_asg = [n for n in own_nodes(p) if isinstance(n, ast.Assign) and norm_src(n.targets[0]) == "ids"]
    ok = ok and isinstance(tc[0].args[0], ast.Tuple) and norm_src(tc[0].args[0].elts[1]) == "pids" \
        and len(ids_asg) == 1 and norm_src(ids_asg[0].value).startswith("np.arange(0, pids.shape[0]")
    col.check(ok, "R-SENT", p.qualname, p.loc(tc[0]) if tc else p.loc(), "propagation walks the original "
              "topology (positions, parent ids) top-down", norm_src(tc[0]) if tc else "",
              "propagation does not traverse (arange(n), pids) with the marking callback as `enter`", stmt="walk")


def compaction(ctx, col):
    repo = ctx.repo
    t = repo.get_def(f"{SUB}.to_sub_topology")
    src = {norm_src(n.targets[0]): n for n in own_nodes(t) if isinstance(n, ast.Assign)}
    keep = src.get("keeped_id")
    k = keep.value if keep is not None else None
    if isinstance(k, ast.Call) and dotted(k.func) in ("cast", "typing.cast"):
        k = k.args[1]
    ok = k is not None and norm_src(k) == "sub_id != REMOVAL"
    col.judge(keep is not None, ok, "R-COMPACT", t.qualname, t.loc(keep) if keep is not None else t.loc(),
              "kept rows = rows whose id is not the removal marker", norm_src(k) if k is not None else "",
              f"keep mask is `{norm_src(k) if k is not None else None}`", stmt="mask")
    filt = [n for n in own_nodes(t) if isinstance(n, ast.Assign) and isinstance(n.targets[0], ast.Tuple)
            and [norm_src(e) for e in n.targets[0].elts] == ["sub_id", "sub_pid"]]
    ok = len(filt) == 1 and norm_src(filt[0].value) == "(sub_id[keeped_id], sub_pid[keeped_id])"
    col.check(ok, "R-COMPACT", t.qualname, t.loc(filt[0]) if filt else t.loc(),
              "ids and parent ids are filtered by the same mask", norm_src(filt[0].value) if filt else "",
              "ids and parents are not filtered by the same keep mask", stmt="filter")
    o2n = src.get("old2new")
    ok = o2n is not None and isinstance(o2n.value, ast.DictComp) and \
        norm_src(o2n.value.generators[0].iter) == "enumerate(sub_id)"
    if ok:
        i, idx = [e.id for e in o2n.value.generators[0].target.elts]
        ok = norm_src(o2n.value.key) == idx and norm_src(o2n.value.value) == i
    col.check(ok, "R-COMPACT", t.qualname, t.loc(o2n) if o2n is not None else t.loc(),
              "old id -> new id is the position among kept rows", norm_src(o2n.value) if o2n is not None else "",
              "old->new map is not {old id: position} over the kept ids", stmt="old2new")
    ok = o2n is not None and filt and o2n.lineno > filt[0].lineno
    col.check(bool(ok), "R-COMPACT", t.qualname, t.loc(o2n) if o2n is not None else t.loc(),
              "the old->new map is built after filtering", "", "old->new map built before removal: ids are not compact",
              stmt="order")
    ni = src.get("new_id")
    ok = ni is not None and norm_src(ni.value).startswith("np.arange(0, sub_id.shape[0]")
    col.check(ok, "R-COMPACT", t.qualname, t.loc(ni) if ni is not None else t.loc(), "new ids are 0..m-1",
              norm_src(ni.value) if ni is not None else "", "new ids are not arange(m)", stmt="new-id")
    rets = [n for n in own_nodes(t) if isinstance(n, ast.Return)]
    ok = len(rets) == 1 and norm_src(rets[0].value) == "((new_id, new_pid), sub_id)"
    col.check(ok, "R-COMPACT", t.qualname, t.loc(rets[0]) if rets else t.loc(),
              "returns ((new ids, new parents), kept old ids) -- the mapping is new id -> old id",
              "", "return value is not ((new_id, new_pid), kept old ids)", stmt="return")
    np_ = src.get("new_pid")
    ok = np_ is not None and any(isinstance(x, ast.ListComp) and norm_src(x.generators[0].iter) == "sub_pid"
                                 for x in ast.walk(np_.value))
    col.check(ok, "R-COMPACT", t.qualname, t.loc(np_) if np_ is not None else t.loc(),
              "new parents are computed from the kept rows' parent ids in order", "", "new_pid does not map sub_pid",
              stmt="new-pid")


def selection(ctx, col):
    repo = ctx.repo
    R = "R-SELECT"
    # get_subtree_impl: pre-order collection from the start node
    d = repo.get_def(f"{IMPL}.get_subtree_impl")
    tc = [n for n in own_nodes(d) if isinstance(n, ast.Call) and dotted(n.func) == "traverse"]
    ok = False
    if len(tc) == 1:
        c = tc[0]
        en, root = kwarg(c, "enter"), kwarg(c, "root")
        lam_ok = isinstance(en, ast.Lambda) and isinstance(en.body, ast.Call) and \
            norm_src(en.body.func) == "ids.append" and norm_src(en.body.args[0]) == en.args.args[0].arg
        ok = lam_ok and root is not None and norm_src(root) == d.params[1] and kwarg(c, "leave") is None \
            and norm_src(c.args[0]) == "topo"
    topo = [n for n in own_nodes(d) if isinstance(n, ast.Assign) and norm_src(n.targets[0]) == "topo"]
    ok = ok and len(topo) == 1 and norm_src(topo[0].value) == "(swc_like.id(), swc_like.pid())"
    col.check(ok, R, d.qualname, d.loc(tc[0]) if tc else d.loc(), "descendants are collected by an "
              "enter callback of a traversal rooted at the start node (pre-order, start node first)",
              norm_src(tc[0]) if tc else "", "subtree ids are not gathered by traverse(topo, enter=append, root=n)",
              stmt="collect")
    sp = [n for n in own_nodes(d) if isinstance(n, ast.Assign) and norm_src(n.targets[0]) == "sub_pid"]
    ok = len(sp) == 1 and norm_src(sp[0].value) == "swc_like.pid()[sub_ids]"
    col.check(ok, R, d.qualname, d.loc(sp[0]) if sp else d.loc(), "kept parents are the parents of the collected ids",
              norm_src(sp[0].value) if sp else "", "sub_pid is not pid[sub_ids]", stmt="sub-pid")
    # to_subtree marks exactly the given ids
    t = repo.get_def(f"{TU}.to_subtree")
    loops = [n for n in own_nodes(t) if isinstance(n, ast.For)]
    ok = len(loops) == 1 and norm_src(loops[0].iter) == "removals" and len(loops[0].body) == 1 and \
        norm_src(loops[0].body[0]) == f"new_ids[{norm_src(loops[0].target)}] = REMOVAL"
    col.check(ok, R, t.qualname, t.loc(loops[0]) if loops else t.loc(), "exactly the given ids are marked",
              norm_src(loops[0]) if loops else "", "marking loop is not `new_ids[i] = REMOVAL for i in removals`",
              stmt="mark")
    pc = [n for n in own_nodes(t) if isinstance(n, ast.Call) and dotted(n.func) == "propagate_removal"]
    ok = len(pc) == 1 and norm_src(pc[0].args[0]) == "(new_ids, swc_like.pid())"
    col.check(ok, R, t.qualname, t.loc(pc[0]) if pc else t.loc(), "marks are propagated over the source's parent ids",
              norm_src(pc[0]) if pc else "", "propagate_removal is not applied to (marked ids, source parents)",
              stmt="propagate-call")
    # cut_tree callbacks: decision tables by folding
    ct = repo.get_def(f"{TU}.cut_tree")
    en = ct.nested.get("_enter")
    lv = ct.nested.get("_leave")
    if en is None or lv is None:
        raise AnalysisError("anchor-vanished: cut_tree callbacks")
    # _enter: if parent removed -> node removed and parent result forwarded
    first = en.node.body[0]
    ok = isinstance(first, ast.If) and norm_src(first.test) == "parent is not None and parent[1]" and \
        [norm_src(s) for s in first.body] == ["removals.append(n.id)", "return parent"]
    col.check(ok, R, en.qualname, en.loc(first), "a node below a removed node is removed without asking the callback",
              "", "descendants of a removed node are not removed unconditionally", stmt="enter-inherit")
    rest = [norm_src(s) for s in en.node.body[1:]]
    ok = rest == ["(res, removal) = enter(n, parent[0] if parent else None)",
                  "if removal:\n    removals.append(n.id)".replace("\n    ", " "),
                  "return (res, removal)"] or \
        (len(en.node.body) == 4 and norm_src(en.node.body[1]).endswith("= enter(n, parent[0] if parent else None)")
         and isinstance(en.node.body[2], ast.If) and norm_src(en.node.body[2].test) == "removal"
         and norm_src(en.node.body[2].body[0]) == "removals.append(n.id)"
         and norm_src(en.node.body[3]) == "return (res, removal)")
    col.check(ok, R, en.qualname, en.loc(), "the callback's verdict marks the node; its value and verdict are handed down",
              "", "enter wrapper does not record `removal` for this node / hand (res, removal) down", stmt="enter-own")
    ok = len(lv.node.body) == 3 and norm_src(lv.node.body[0]).endswith("removal = leave(n, children)") \
        and isinstance(lv.node.body[1], ast.If) and norm_src(lv.node.body[1].test) == "removal" \
        and norm_src(lv.node.body[1].body[0]) == "removals.append(n.id)" and norm_src(lv.node.body[2]) == "return res"
    col.check(ok, R, lv.qualname, lv.loc(), "leave form: the callback's verdict marks the node, value passed up",
              "", "leave wrapper does not record `removal` for this node", stmt="leave-own")
    rets = [n for n in ct.node.body if isinstance(n, ast.Return)]
    ok = len(rets) == 1 and norm_src(rets[0].value) == "to_subtree(tree, removals)"
    col.check(ok, R, ct.qualname, ct.loc(rets[0]) if rets else ct.loc(), "the collected set is removed from the given tree",
              "", "cut_tree does not return to_subtree(tree, removals)", stmt="cut-return")
    # CutByType
    cbt = repo.get_def("swcgeom.transforms.tree.CutByType.__call__")
    rm = [n for n in own_nodes(cbt) if isinstance(n, ast.Assign) and norm_src(n.targets[0]) == "removals"]
    ok = len(rm) == 1 and norm_src(rm[0].value) == "set(x.id()[x.type() != self.type])"
    col.check(ok, R, cbt.qualname, cbt.loc(rm[0]) if rm else cbt.loc(), "candidates = nodes whose type differs",
              norm_src(rm[0].value) if rm else "", "initial removal set is not {id : type != wanted}", stmt="bytype-init")
    lf = cbt.nested.get("leave")
    ok = lf is not None and len(lf.node.body) == 2 and isinstance(lf.node.body[0], ast.If) \
        and norm_src(lf.node.body[0].test) == "n.id in removals and any(keep_children)" \
        and norm_src(lf.node.body[0].body[0]) == "removals.remove(n.id)" \
        and norm_src(lf.node.body[1]) == "return n.id not in removals"
    col.check(bool(ok), R, cbt.qualname, lf.loc() if lf else cbt.loc(), "a node is kept iff it has the type or "
              "some child is kept (ancestors of kept nodes are kept); 'kept' is passed up", "",
              "ancestor-keeping rule differs from `keep iff typed or any child kept`", stmt="bytype-leave")
    # CutByFurcationOrder._enter decision table (folded)
    fo = repo.get_def("swcgeom.transforms.tree.CutByFurcationOrder._enter")
    rows = [((None, False), 0), ((None, True), 0), ((2, True), 3), ((2, False), 2)]
    for (pl, furc), want in rows:
        got = _fold_level(ctx, fo, pl, furc)
        col.judge(got is not None, got == want, R, fo.qualname, fo.loc(),
                  f"level(parent={pl}, furcation={furc})", f"{got}", f"level is {got}, expected {want}",
                  stmt=f"level:{pl}:{furc}")
    rets = [n for n in own_nodes(fo) if isinstance(n, ast.Return)]
    ok = len(rets) == 1 and norm_src(rets[0].value) == "(level, level >= self.max_furcation_order)"
    col.check(ok, R, fo.qualname, fo.loc(rets[0]) if rets else fo.loc(), "cut where the level reaches the maximum order",
              norm_src(rets[0].value) if rets else "", "cut condition is not `level >= max order`", stmt="order-cut")


def _fold_level(ctx, d, parent_level, is_furc):
    """Evaluate the if/elif ladder assigning `level` on constants."""
    body = [s for s in d.node.body if isinstance(s, ast.If)]
    if len(body) != 1:
        return None
    node = body[0]
    env = {"parent_level": parent_level}
    while True:
        t = node.test
        src = norm_src(t)
        if src == "parent_level is None":
            val = parent_level is None
        elif src == "n.is_furcation()":
            val = is_furc
        elif src == "not n.is_furcation()":
            val = not is_furc
        elif src == "parent_level is not None":
            val = parent_level is not None
        else:
            return None
        branch = node.body if val else node.orelse
        if len(branch) == 1 and isinstance(branch[0], ast.If):
            node = branch[0]
            continue
        if len(branch) == 1 and isinstance(branch[0], ast.Assign) and norm_src(branch[0].targets[0]) == "level":
            try:
                return Folder(ctx.repo, d.module, d, env).eval(branch[0].value)
            except Unfoldable:
                return None
        return None


def anchored(ctx, col):
    """The statements that carry the clauses, matched three-way (sa/match.py) under one consistent
    renaming per function: present and the same -> OK, present but with another constant / operand
    role / attribute -> VIOLATION, not found in a recognised spelling -> UNRESOLVED."""
    repo = ctx.repo
    g = repo.get_def(f"{IMPL}.get_subtree_impl")
    col.text_group("R-SELECT", g.qualname, g, [
        ("the walk runs over (ids, parent ids) of the source", ["topo = (swc_like.id(), swc_like.pid())"], "topo"),
        ("subtree = pre-order descendants collected from the start node", ["traverse(topo, enter=lambda n, _: ids.append(n), root=n)"], "collect"),
        ("the collected ids, in visiting order", ["sub_ids = np.array(ids, dtype=_any)"], "ids"),
        ("their parent ids are read from the source at those ids", ["sub_pid = swc_like.pid()[sub_ids]"], "pids"),
        ("the start node (first collected) becomes the root", ["sub_pid[0] = -1"], "root-reset"),
        ("compaction of exactly these rows", ["return to_subtree_impl(swc_like, (sub_ids, sub_pid), out_mapping=out_mapping)"], "compact"),
    ], fixed=("swc_like", "out_mapping", "traverse", "to_subtree_impl"))
    t = repo.get_def(f"{IMPL}.to_subtree_impl")
    col.text_group("R-UNIF", t.qualname, t, [
        ("one compaction call yields the new topology and the new->old mapping", ["(new_id, new_pid), mapping = to_sub_topology(sub)"], "call"),
        ("every key of the source is gathered with that mapping into fresh arrays",
         ["ndata = {k: swc_like.get_ndata(k)[mapping].copy() for k in swc_like.keys()}"], "gather"),
        ("id / pid come from the same call", ["ndata.update(id=new_id, pid=new_pid)"], "overwrite"),
        ("list mapping = new id -> old id", ["out_mapping.extend(mapping)"], "out-list"),
        ("dict mapping = {new id: old id}",
         ["for new_id, old_id in enumerate(mapping): out_mapping[new_id] = old_id", "out_mapping.update(enumerate(mapping))"], "out-dict"),
        ("returns (count of kept nodes, columns, source, names)", ["return n_nodes, ndata, swc_like.source, swc_like.names"], "ret"),
        ("count of kept nodes", ["n_nodes = new_id.shape[0]", "n_nodes = len(new_id)", "n_nodes = len(mapping)"], "count"),
    ], fixed=("swc_like", "sub", "out_mapping", "to_sub_topology"))
    # dict.update(zip(values, keys)) / {old: new} inverts the documented direction
    for c in own_nodes(t):
        if isinstance(c, ast.Call) and isinstance(c.func, ast.Attribute) and c.func.attr == "update" and norm_src(c.func.value) == "out_mapping" \
                and c.args and isinstance(c.args[0], ast.Call) and dotted(c.args[0].func) == "zip" and len(c.args[0].args) == 2:
            a0 = norm_src(c.args[0].args[0])
            if a0.startswith("mapping") or a0 in ("mapping",):
                col.bad("R-UNIF", t.qualname, t.loc(c), "dict mapping = {new id: old id}",
                        f"`{norm_src(c)}` fills the dict as {{old id: new id}}: the reported mapping is inverted", stmt="out-dict", definite=True)
    st = repo.get_def(f"{SUB}.to_sub_topology")
    col.text_group("R-COMPACT", st.qualname, st, [
        ("rows are kept iff their id is not the removal marker", ["keeped_id = cast(npt.NDArray[np.bool_], sub_id != REMOVAL)", "keeped_id = sub_id != REMOVAL"], "mask"),
        ("ids and parent ids are filtered with the same mask", ["sub_id, sub_pid = sub_id[keeped_id], sub_pid[keeped_id]"], "filter"),
        ("old -> new is built from the kept ids, in order", ["old2new = {idx: i for i, idx in enumerate(sub_id)}", "old2new = dict(zip(sub_id, range(len(sub_id))))"], "old2new"),
        ("new ids are 0..m-1", ["new_id = np.arange(0, sub_id.shape[0], dtype=_any)", "new_id = np.arange(sub_id.shape[0], dtype=_any)"], "new-id"),
        ("parent remap: -1 stays -1, every other parent goes through old -> new (a missing parent is an error)",
         ["new_pid = np.array([old2new[i] if i != -1 else -1 for i in sub_pid], dtype=_any)",
          "new_pid = np.array([-1 if i == -1 else old2new[i] for i in sub_pid], dtype=_any)"], "remap"),
        ("returns ((new ids, new parents), kept old ids)", ["return (new_id, new_pid), sub_id"], "ret"),
    ], fixed=("sub", "REMOVAL", "cast"))
    pr = repo.get_def(f"{SUB}.propagate_removal")
    col.text_group("R-SENT", pr.qualname, pr, [
        ("topology is (marked ids, parent ids)", ["new_ids, pids = topology"], "unpack"),
        ("positions 0..n-1 are the node ids of the walk", ["ids = np.arange(0, pids.shape[0])", "ids = np.arange(pids.shape[0])"], "ids"),
        ("a node is removed iff its parent is removed or it is marked itself; the mark is written and handed to the children",
         ["if (remove := (bool(parent) or new_ids[n] == REMOVAL)): new_ids[n] = REMOVAL"], "inherit"),
        ("the decision is handed down", ["return remove"], "hand-down"),
        ("top-down walk over the whole topology", ["traverse((ids, pids), enter=propagate)"], "walk"),
        ("returns the marked ids and a copy of the parent ids", ["return (new_ids, pids.copy())"], "ret"),
    ], fixed=("topology", "REMOVAL", "traverse"))
    ts = repo.get_def(f"{TU}.to_subtree")
    col.text_group("R-SELECT", ts.qualname, ts, [
        ("marking works on a copy of the id column", ["new_ids = swc_like.id().copy()"], "copy-ids"),
        ("exactly the given ids are marked", ["for i in removals: new_ids[i] = REMOVAL"], "mark"),
        ("marks are propagated to all descendants", ["sub = propagate_removal((new_ids, swc_like.pid()))"], "propagate"),
        ("compaction of the source with the marked topology", ["n_nodes, ndata, source, names = to_subtree_impl(swc_like, sub, out_mapping=out_mapping)"], "compact"),
        ("the result is a new tree of the compacted columns", ["return Tree(n_nodes, **ndata, source=source, names=names)"], "tree"),
    ], fixed=("swc_like", "removals", "out_mapping", "REMOVAL", "propagate_removal", "to_subtree_impl", "Tree"))
    ct = repo.get_def(f"{TU}.cut_tree")
    col.text_group("R-SELECT", ct.qualname, ct, [
        ("a node below a removed node is removed and passes the removal on", ["if parent is not None and parent[1]:\n    removals.append(n.id)\n    return parent"], "inherit"),
        ("the callback decides for the node, given its parent's value", ["res, removal = enter(n, parent[0] if parent else None)"], "enter-call"),
        ("a node the callback designates is removed", ["if removal: removals.append(n.id)"], "designate"),
        ("the (value, removed) pair is handed to the children", ["return res, removal"], "hand-down"),
        ("leave form: the callback decides from the children's values", ["res, removal = leave(n, children)"], "leave-call"),
        ("the collected ids are removed with their subtrees", ["return to_subtree(tree, removals)"], "cut"),
    ], fixed=("enter", "leave", "tree", "to_subtree"))
    cb = repo.get_def("swcgeom.transforms.tree.CutByType.__call__")
    col.text_group("R-SELECT", cb.qualname, cb, [
        ("candidates for removal: nodes of any other type", ["removals = set(x.id()[x.type() != self.type])"], "cands"),
        ("a candidate with a kept child is kept (ancestors of kept nodes are kept)", ["if n.id in removals and any(keep_children): removals.remove(n.id)"], "rescue"),
        ("'kept' is reported to the parent after the rescue", ["return n.id not in removals"], "report"),
        ("bottom-up over the whole tree", ["x.traverse(leave=leave)"], "walk"),
        ("the remaining candidates are removed", ["y = to_subtree(x, removals)", "return to_subtree(x, removals)"], "cut"),
    ], fixed=("x", "to_subtree"))
    # the reported value must be computed after the rescue: a value computed before it is stale
    lv = cb.nested.get("leave")
    if lv is not None:
        rets = [r for r in own_nodes(lv) if isinstance(r, ast.Return) and isinstance(r.value, ast.Name)]
        for r in rets:
            defs = [a for a in own_nodes(lv) if isinstance(a, ast.Assign) and norm_src(a.targets[0]) == r.value.id]
            resc = [c for c in own_nodes(lv) if isinstance(c, ast.Call) and isinstance(c.func, ast.Attribute) and c.func.attr in ("remove", "discard")]
            if defs and resc and defs[-1].lineno < resc[0].lineno and "removals" in norm_src(defs[-1].value):
                col.bad("R-SELECT", cb.qualname, cb.loc(r), "'kept' is reported to the parent after the rescue",
                        f"`{norm_src(r)}` reports `{norm_src(defs[-1])}`, computed before the node is rescued: a rescued ancestor still "
                        f"reports 'removed', so keeping ancestors stops one level up", stmt="report", definite=True)
    fo = repo.get_def("swcgeom.transforms.tree.CutByFurcationOrder._enter")
    col.text_group("R-SELECT", fo.qualname, fo, [
        ("the root is at level 0", ["if parent_level is None: level = 0\nelif n.is_furcation(): level = parent_level + 1\nelse: level = parent_level"], "levels"),
        ("nodes at or beyond the maximum order are cut", ["return (level, level >= self.max_furcation_order)"], "threshold"),
    ])



def out_mapping_reset(ctx, col, d):
    """R-OUTCLEAR: the caller's mapping object is emptied before it is filled (must-pass on the CFG): a dict / list handed to two calls otherwise keeps the entries of
    the earlier, larger result"""
    from .. import cfg as cfgmod
    col.rule("R-OUTCLEAR", "the reported mapping holds this call's entries only: every store into the caller's `out_mapping` (item store, update / extend / append / setdefault) is reached "
             "only through `out_mapping.clear()` (or a whole-slice replacement) on every path from the function's entry -- CFG must-pass", floor=1)
    prm = "out_mapping"
    if prm not in d.params:
        col.unresolved("R-OUTCLEAR", d.qualname, d.loc(), "mapping parameter", f"no parameter `{prm}`", stmt="outclear")
        return
    g = cfgmod.build(d)

    def is_clear(n):
        a = n.ast
        if isinstance(a, ast.Expr) and isinstance(a.value, ast.Call) and norm_src(a.value.func) == f"{prm}.clear":
            return True
        if isinstance(a, ast.Assign) and len(a.targets) == 1 and norm_src(a.targets[0]) == f"{prm}[:]":
            return True
        return False

    stores = []
    for n in own_nodes(d):
        if isinstance(n, ast.Call) and isinstance(n.func, ast.Attribute) and isinstance(n.func.value, ast.Name) and n.func.value.id == prm \
                and n.func.attr in ("update", "extend", "append", "setdefault", "insert", "__setitem__"):
            stores.append(n)
        if isinstance(n, (ast.Assign, ast.AugAssign)):
            for t in (n.targets if isinstance(n, ast.Assign) else [n.target]):
                if isinstance(t, ast.Subscript) and isinstance(t.value, ast.Name) and t.value.id == prm and norm_src(t) != f"{prm}[:]":
                    stores.append(n)
    rebinds = [n for n in own_nodes(d) if isinstance(n, ast.Assign) and any(isinstance(t, ast.Name) and t.id == prm for t in n.targets)]
    if rebinds or not stores:
        col.unresolved("R-OUTCLEAR", d.qualname, d.loc(), "the reported mapping is emptied before it is filled", "the parameter is re-bound, or no store into it was recognised", stmt="outclear")
        return
    from ..rules.sortedness import _stmt_of
    for st in stores:
        holder = st
        node = g.node_of(holder)
        if node is None:
            holder = _stmt_of(d, st)
            node = g.node_of(holder) if holder is not None else None
        if node is None:
            col.unresolved("R-OUTCLEAR", d.qualname, d.loc(st), "store into the mapping", "statement not on the CFG", stmt=f"outclear:{norm_src(st)[:30]}")
            continue
        ok = g.must_pass(g.entry, [node], is_clear)
        col.check(ok, "R-OUTCLEAR", d.qualname, d.loc(st), "the reported mapping is emptied before it is filled", f"`{norm_src(st)[:60]}` after clear()",
                  f"`{norm_src(st)[:70]}` is reached on a path that never empties `{prm}`: when the caller hands the same dict / list to two calls (or a non-empty one), entries of the earlier "
                  f"result that the new, smaller result does not overwrite stay in it -- the mapping reports nodes that are not in the returned tree", stmt=f"outclear:{norm_src(st)[:30]}", definite=True)


def node_subtree_start(ctx, col):
    """A node handle's sub-tree starts at the node's ID (a key of the parent relation), not at the position the handle was created with:
    handles made with a negative position (`tree.node(-1)`) have idx < 0 while id is the real id; the children index has no key -k, and
    the key -1 is the 'no parent' marker, so the walk returns one node -- or the whole tree hanging under a phantom copy."""
    d = ctx.repo.get_def("swcgeom.core.tree.Tree.Node.subtree")
    calls = [c for c in own_nodes(d) if isinstance(c, ast.Call) and (dotted(c.func) or "").rsplit(".", 1)[-1] in ("get_subtree_impl", "get_subtree") and len(c.args) >= 2]
    if len(calls) != 1:
        col.unresolved("R-SELECT", d.qualname, d.loc(), "Node.subtree starts the extraction at the node's id", f"{len(calls)} extraction calls", stmt="node-subtree-start")
        return
    a = norm_src(calls[0].args[1])
    if a == "self.id":
        col.ok("R-SELECT", d.qualname, d.loc(calls[0]), "Node.subtree starts the extraction at the node's id", norm_src(calls[0])[:80], stmt="node-subtree-start")
    elif a == "self.idx":
        col.add("R-SELECT", d.qualname, d.loc(calls[0]), "Node.subtree starts the extraction at the node's id", "VIOLATION",
                f"`{norm_src(calls[0])[:80]}` starts at `self.idx`, the position the handle was made with: for a handle made with a negative position (tree.node(-1), "
                f"the idiom for 'last node') that is not a key of the parent relation (-1 is the 'no parent' marker), so the result is a single node or the whole tree under a "
                f"phantom root", stmt="node-subtree-start", definite=True)
    else:
        col.unresolved("R-SELECT", d.qualname, d.loc(calls[0]), "Node.subtree starts the extraction at the node's id", f"start argument `{a}`", stmt="node-subtree-start")



def iterables_once(ctx, col):
    """The public pruning functions take the node set as an Iterable: a generator / map / filter object is a legal argument, and it can be walked once."""
    from .c19 import consumptions, _ln
    col.rule("R-ITER", "a parameter of a public tree operation that is annotated Iterable (the removal set) is iterated at most once unless first bound to a materialised copy: "
             "a second pass over a generator sees nothing, so nothing is removed and the whole tree comes back without an error", floor=1)
    n = 0
    for d in ctx.repo.all_defs():
        if d.module.name not in ("swcgeom.core.tree_utils", "swcgeom.core.tree_utils_impl", "swcgeom.core.swc_utils.subtree") or d.is_lambda or d.parent is not None or d.name.startswith("_"):
            continue
        for p_ in d.params:
            ann = d.param_annotation(p_)
            a = norm_src(ann) if ann is not None else ""
            if not (a.startswith(("Iterable[", "Iterator[", "Optional[Iterable[")) or a in ("Iterable", "Iterator")):
                continue
            n += 1
            cons, rebound = consumptions(d, p_)
            eff = [c for c in cons if rebound is None or _ln(c) <= rebound]
            what = f"{d.name}({p_}: {a}) is walked once"
            if len(eff) <= 1:
                col.ok("R-ITER", d.qualname, d.loc(), what, f"iterated {len(eff)} time(s)", stmt=f"iter:{p_}")
            else:
                col.bad("R-ITER", d.qualname, d.loc(eff[1] if hasattr(eff[1], "lineno") else eff[1].iter), what,
                        f"`{p_}` is iterated {len(eff)} times (lines {', '.join(str(_ln(c)) for c in eff)}): for a generator / iter() / map() / filter() argument the later pass is empty, "
                        f"so the ids it should mark are never marked and the operation returns the whole tree", stmt=f"iter:{p_}", definite=True)
    if not n:
        col.ok("R-ITER", "iter-scan", "", "no Iterable-annotated parameter in the public pruning functions", "", stmt="iter-scan")



def subtree_order(ctx, col):
    """The extracted sub-tree's rows are the visited nodes in traversal order, start node first (row 0 becomes the root).  A list of the members in ascending id order
    (a mask read back with flatnonzero / where / nonzero, a sort, a set) puts a descendant with a smaller id in front of the start node."""
    col.rule("R-SUBORDER", "sub-tree extraction keeps the traversal order of the visited nodes (start node first, so that row 0 is the root): the member list is not re-ordered by id "
             "(flatnonzero / where / sort / unique)", floor=1)
    d = ctx.repo.get_def("swcgeom.core.tree_utils_impl.get_subtree_impl")
    bad = None
    binds = {}
    for n in own_nodes(d):
        if isinstance(n, ast.Assign) and len(n.targets) == 1 and isinstance(n.targets[0], ast.Name):
            binds.setdefault(n.targets[0].id, []).append(n)
    for n in binds.get("sub_ids", []):
        for c in ast.walk(n.value):
            if isinstance(c, ast.Call) and (dotted(c.func) or "").rsplit(".", 1)[-1] in ("flatnonzero", "nonzero", "where", "argwhere", "sort", "unique", "sorted", "argsort"):
                bad = (n, c)
    what = "the sub-tree's rows are the visited nodes in traversal order (start node first)"
    if bad is not None:
        col.bad("R-SUBORDER", d.qualname, d.loc(bad[0]), what,
                f"`{norm_src(bad[0])[:80]}` lists the members in ascending id order (`{(dotted(bad[1].func) or '').rsplit('.', 1)[-1]}`): in a tree that is not stored parents-first a descendant "
                f"with a smaller id comes before the start node, so row 0 of the result is not its root (node 0 has a parent, the root sits elsewhere)", stmt="subtree-order", definite=True)
    else:
        col.ok("R-SUBORDER", d.qualname, d.loc(), what, "no re-ordering of the visited ids", stmt="subtree-order")
