"""C13 -- closed-form volumes of the primitives equal the true geometric volume.

Decided statically, as exact polynomial identities and exhaustive case tables:
  R-FORM   each closed form, translated from its AST into a rational function over the
           symbols (r, h, d, pi), is *identical* to the textbook formula;
  R-CELL   the case analysis of the two composite forms: one exact rational witness per
           cell of the hyperplane arrangement of all guards (code's and definition's);
           at each witness the branch taken is found by folding the guards, and the
           expression returned by that branch is compared symbolically with the formula
           the definition prescribes for that cell;
  R-ROLE   the symbols mean what the formulas assume (d = centre distance, h = frustum
           height, h1/r3 = axial height / radius where the cone leaves the sphere, which
           end of the frustum is 'the other end');
  R-LINE   the line/sphere intersection and point projection helpers are the quadratic /
           projection formulas (formal polynomial identities over dot products);
  R-LADDER which operand pairs get a closed form, in which argument order;
  R-GEO    every closed form is homogeneous of degree 3 in lengths.
"""

from __future__ import annotations

import ast
from fractions import Fraction

from ..model import AnalysisError, dotted, norm_src, own_nodes
from ..poly import CellEval, NotPolynomial, R, Translator, cells, reduce_squares

MOD = "swcgeom.utils.volumetric_object"
GEO = "swcgeom.utils.solid_geometry"
PI = R.sym("pi")
F = Fraction


def S(x):
    return R.sym(x)


def C(a, b=1):
    return R.const(F(a, b))


def sphere(r):
    return C(4, 3) * PI * r ** 3


def cap(r, h):
    return PI * h ** 2 * (C(3) * r - h) / C(3)


def frustum(r1, r2, h):
    return PI * h * (r1 ** 2 + r1 * r2 + r2 ** 2) / C(3)


def lens(r1, r2, d):
    return PI * (r1 + r2 - d) ** 2 * (d ** 2 + C(2) * d * (r1 + r2) - C(3) * (r1 - r2) ** 2) / (C(12) * d)


def single_return(d):
    rets = [n for n in own_nodes(d) if isinstance(n, ast.Return)]
    body = [s for s in d.node.body if not (isinstance(s, ast.Expr) and isinstance(s.value, ast.Constant))]
    if len(rets) != 1 or len(body) != 1 or body[0] is not rets[0]:
        return None
    return rets[0].value


def _abs_variants(test):
    """the test with every abs(x) replaced by x and by -x (both signs of the argument are faces of the arrangement), plus `x > 0` for the argument itself"""
    import copy as _copy
    calls = [c for c in ast.walk(test) if isinstance(c, ast.Call) and (dotted(c.func) or "").rsplit(".", 1)[-1] in ("abs", "fabs", "absolute") and len(c.args) == 1]
    if not calls:
        return [test]
    out = []
    for sign in (1, -1):
        class _T(ast.NodeTransformer):
            def visit_Call(self, c):
                if (dotted(c.func) or "").rsplit(".", 1)[-1] in ("abs", "fabs", "absolute") and len(c.args) == 1:
                    a = self.visit(c.args[0])
                    return a if sign == 1 else ast.UnaryOp(op=ast.USub(), operand=a)
                return self.generic_visit(c)
        out.append(ast.fix_missing_locations(_T().visit(_copy.deepcopy(test))))
    for c in calls:
        out.append(ast.fix_missing_locations(ast.Compare(left=_copy.deepcopy(c.args[0]), ops=[ast.Gt()], comparators=[ast.Constant(0)])))
    return out


class _DistRewrite(ast.NodeTransformer):
    """Rewrite the ways of writing the centre distance of two operands into the symbol it denotes:
    |c1 - c2| -> __d__ ;  (c1-c2).(c1-c2), sum((c1-c2)**2) -> __d__ ** 2 ;  sqrt(x) stays a call (resolved when x is a known square).
    `.item()` / float() wrappers are dropped.  Names bound once to the centre difference are read through."""

    def __init__(self, p1, p2, raw):
        self.p1, self.p2, self.raw = p1, p2, raw
        self.hits = 0

    def _is_diff(self, e, depth=0):
        if isinstance(e, ast.Name) and e.id in self.raw and depth < 3:
            return self._is_diff(self.raw[e.id], depth + 1)
        if isinstance(e, ast.BinOp) and isinstance(e.op, ast.Sub):
            a, b = norm_src(e.left), norm_src(e.right)
            return {a, b} == {f"{self.p1}.center", f"{self.p2}.center"}
        return False

    def _d(self, power):
        self.hits += 1
        n = ast.Name(id="__d__", ctx=ast.Load())
        return n if power == 1 else ast.BinOp(left=n, op=ast.Pow(), right=ast.Constant(2))

    def visit_Call(self, c):
        fn = dotted(c.func) or ""
        last = fn.rsplit(".", 1)[-1]
        if isinstance(c.func, ast.Attribute) and c.func.attr in ("item", "tolist") and not c.args:
            return self.visit(c.func.value)
        if last == "float" and len(c.args) == 1:
            return self.visit(c.args[0])
        if last == "norm" and len(c.args) == 1 and not c.keywords and self._is_diff(c.args[0]):
            return self._d(1)
        if last in ("dot", "inner", "vdot") and len(c.args) == 2 and norm_src(c.args[0]) == norm_src(c.args[1]) and self._is_diff(c.args[0]):
            return self._d(2)
        if last == "dot" and isinstance(c.func, ast.Attribute) and len(c.args) == 1 and norm_src(c.func.value) == norm_src(c.args[0]) and self._is_diff(c.args[0]):
            return self._d(2)
        if last == "sum":
            arg = c.args[0] if c.args else (c.func.value if isinstance(c.func, ast.Attribute) else None)
            if arg is not None:
                if isinstance(arg, ast.BinOp) and isinstance(arg.op, ast.Pow) and isinstance(arg.right, ast.Constant) and arg.right.value == 2 and self._is_diff(arg.left):
                    return self._d(2)
                if isinstance(arg, ast.BinOp) and isinstance(arg.op, ast.Mult) and norm_src(arg.left) == norm_src(arg.right) and self._is_diff(arg.left):
                    return self._d(2)
                if isinstance(arg, ast.Call) and (dotted(arg.func) or "").endswith("square") and arg.args and self._is_diff(arg.args[0]):
                    return self._d(2)
        return self.generic_visit(c)

    def visit_BinOp(self, b):
        if isinstance(b.op, ast.MatMult) and norm_src(b.left) == norm_src(b.right) and self._is_diff(b.left):
            return self._d(2)
        return self.generic_visit(b)


def _sqrt_atoms(inner_atoms=None):
    """atoms hook: sqrt(x) / x ** 0.5 where x translates to the exact square of a symbol"""
    def atoms(call, tr=None):
        if inner_atoms is not None:
            r = inner_atoms(call)
            if r is not None:
                return r
        return None
    return atoms


def make_inline(ctx, scope_def, atoms=None):
    """Expand calls to static closed forms of this module (single-return defs)."""
    repo = ctx.repo

    def inline(call: ast.Call, tr: Translator):
        fn = dotted(call.func) or ""
        target = None
        parts = fn.split(".")
        if len(parts) == 2:
            owner, meth = parts
            if owner in ("self", "cls") and scope_def is not None and scope_def.cls is not None:
                target = scope_def.cls.lookup_method(meth)
            else:
                try:
                    target = repo.get_class(f"{MOD}.{owner}").lookup_method(meth)
                except Exception:  # noqa: BLE001
                    target = None
        if atoms is not None:
            a = atoms(call)
            if a is not None:
                return a
        if fn in ("np.sqrt", "math.sqrt", "numpy.sqrt", "sqrt") and len(call.args) == 1 and not call.keywords:
            inner = tr.tr(call.args[0])
            # the square root of an exact square of one symbol (a distance, a radius: non-negative by role)
            for sname in sorted(inner.symbols() - {"pi"}):
                if inner.same(S(sname) ** 2):
                    return S(sname)
            return None
        if target is None:
            return None
        expr = single_return(target)
        if expr is None:
            return None
        params = [p for p in target.params if p not in ("self", "cls")]
        if len(call.args) != len(params) or call.keywords:
            return None
        env = {p: tr.tr(a) for p, a in zip(params, call.args)}
        sub = Translator(env, inline, tr.witness)
        return sub.tr(expr)
    return inline


def run(ctx, col, tier):
    from ..rules import smalllints as _small
    _small.run_atol(ctx, col, ('swcgeom.utils.solid_geometry', 'swcgeom.utils.volumetric_object', 'swcgeom.analysis.volume'))
    _small.run_falsy(ctx, col, ('swcgeom.utils.solid_geometry', 'swcgeom.utils.volumetric_object', 'swcgeom.analysis.volume'))
    col.rule("R-FORM", "each closed form (sphere, cap, frustum, two-sphere lens, the unions), "
             "translated from its AST to an exact rational function, is identical to the "
             "definition's formula (polynomial identity, every coefficient and exponent)", floor=8,
             exhaustive=True)
    col.rule("R-CELL", "case analysis of the composite forms: for one exact witness in every cell "
             "of the arrangement of all guard hyperplanes the branch taken (guards folded at the "
             "witness) returns an expression symbolically equal to the formula the definition "
             "prescribes for that cell (tangent/equality cells may take either neighbour's value)",
             floor=20, exhaustive=True)
    col.rule("R-ROLE", "the quantities entering the formulas are the ones the formulas are about: "
             "centre distance, frustum height, the radius of the *other* end, exit height and exit "
             "radius of the cone's side, the slant line handed to the intersection routine", floor=8, shape=True)
    col.rule("R-LINE", "line/sphere intersection = roots of |A + tD - C|^2 = r^2 with both points "
             "A + tD; point projection = A + (AP.n / n.n) n (formal identities over dot products)",
             floor=6)
    col.rule("R-LADDER", "operand pairs that get a closed form and their argument order: sphere/"
             "sphere, sphere/frustum in either call direction; the sphere-frustum closed form is "
             "used only when the sphere sits on one end of the frustum", floor=6, shape=True)
    col.rule("R-GEO", "every closed form is homogeneous of degree 3 in lengths", floor=4, exhaustive=True)
    col.not_decided += ["floating-point error of the formulas (cancellation near tangency, the "
                        "eps tolerance)", "the Monte-Carlo fallback for non-concentric pairs",
                        "that the textbook formulas themselves equal the geometric volume (taken "
                        "as the definition)"]
    col.assumptions += ["textbook formulas: V_sphere = 4/3 pi r^3; V_cap = pi h^2 (3r - h)/3; "
                        "V_frustum = pi h (r1^2 + r1 r2 + r2^2)/3; V_lens = pi (r1+r2-d)^2 "
                        "(d^2 + 2d(r1+r2) - 3(r1-r2)^2)/(12 d)",
                        "the eps tolerance of the guards is treated as 0"]
    col.rule("R-TYPE", "geometric typing (kind x degree, sa/geo.py) of the closed forms and of the code that feeds them: centres enter only through "
             "differences, every length argument is a length (degree 1), the result is a pose-independent volume (degree 3)", floor=6)
    from . import geosinks
    geo, res = geosinks.check_sinks(ctx, col, "R-TYPE", only=lambda q: "volumetric_object" in q)
    geosinks.report(col, "R-TYPE", res, repo=ctx.repo)
    from ..rules import memo
    memo.run(ctx, col, ('swcgeom.utils.volumetric_object', 'swcgeom.utils.solid_geometry'))
    col.guard(forms, ctx, col)
    col.guard(lens_cells, ctx, col)
    col.guard(concentric, ctx, col)
    col.guard(helpers, ctx, col)
    col.guard(root_count, ctx, col)
    col.guard(ladders, ctx, col)


# --------------------------------------------------------------------------- plain formulas


def _check_form(ctx, col, qual, params, oracle, what, rule="R-FORM"):
    repo = ctx.repo
    from ..rules import rtolpos as _rtolpos
    _rtolpos.run_conjoined(ctx, col, ("swcgeom.utils.volumetric_object.VolSphereFrustumConeIntersection._get_volume",
                                      "swcgeom.utils.volumetric_object.VolSphereFrustumConeIntersection.calc_concentric_intersect_volume"))
    col.rule("R-PAIR", "an end of a frustum is the centre and the radius of the SAME end: no 2-tuple and no pair of closeness tests takes the centre of "
             "one end with the radius of the other (zero expected; positive examples kept)", floor=1)
    from ..rules import endpair as _endpair
    _endpair.check(ctx, col, "R-PAIR", ("swcgeom.utils.volumetric_object", "swcgeom.analysis.volume", "swcgeom.utils.solid_geometry"))
    d = repo.get_def(qual)
    expr = single_return(d)
    if expr is None:
        col.unresolved(rule, qual, d.loc(), what, "not a single-return closed form", stmt=what)
        return None
    env = {p: S(p) for p in params}
    try:
        got = Translator(env, make_inline(ctx, d)).tr(expr)
    except (NotPolynomial, ZeroDivisionError) as e:
        col.unresolved(rule, qual, d.loc(), what, f"outside the polynomial sub-language: {e}", stmt=what)
        return None
    col.check(got.same(oracle), rule, qual, d.loc(), what, f"{norm_src(expr)}",
              f"`{norm_src(expr)}` = {got} is not the definition {oracle}", stmt=what)
    prof = got.degree_profile()
    col.check(prof == {3}, "R-GEO", qual, d.loc(), f"{what}: homogeneous of degree 3",
              "", f"degree profile {prof}", stmt="deg:" + what)
    return got


def forms(ctx, col):
    repo = ctx.repo
    _check_form(ctx, col, f"{MOD}.VolSphere.calc_volume", ["radius"], sphere(S("radius")), "sphere volume")
    _check_form(ctx, col, f"{MOD}.VolSphere.calc_volume_spherical_cap", ["r", "h"], cap(S("r"), S("h")), "spherical cap volume")
    _check_form(ctx, col, f"{MOD}.VolFrustumCone.calc_volume", ["r1", "r2", "height"],
                frustum(S("r1"), S("r2"), S("height")), "frustum volume")
    # wiring of the instance methods
    R_ = "R-FORM"
    for qual, want, what in (
        (f"{MOD}.VolSphere._get_volume", "self.calc_volume(self.radius)", "sphere: formula applied to its own radius"),
        (f"{MOD}.VolSphere.get_volume_spherical_cap", "self.calc_volume_spherical_cap(self.radius, h)", "cap: formula applied to own radius and the given height"),
        (f"{MOD}.VolFrustumCone._get_volume", "self.calc_volume(self.r1, self.r2, self.height())", "frustum: formula applied to its two radii and its height"),
        (f"{MOD}.VolSphere2Intersection._get_volume", "self.calc_intersect_volume(self.obj1, self.obj2)", "lens: formula applied to the two operands"),
    ):
        d = repo.get_def(qual)
        e = single_return(d)
        col.shape(e is not None and norm_src(e) == want, R_, qual, d.loc(), what, want,
                  f"returns `{norm_src(e) if e is not None else ''}`", stmt="wire")
    # height = |c1 - c2|
    d = repo.get_def(f"{MOD}.VolFrustumCone.height")
    e = single_return(d)
    ok = e is not None and norm_src(e) in ("np.linalg.norm(self.c1 - self.c2).item()", "np.linalg.norm(self.c2 - self.c1).item()")
    col.judge(e is not None, ok, "R-ROLE", d.qualname, d.loc(), "frustum height = distance between its end centres", "",
              f"height is `{norm_src(e) if e is not None else ''}`", stmt="height")
    # constructor stores fields under their own names
    for cls, fields in (("VolSphere", ["center", "radius"]), ("VolFrustumCone", ["c1", "c2", "r1", "r2"])):
        d = repo.get_def(f"{MOD}.{cls}.__init__")
        st = {norm_src(s.targets[0]): norm_src(s.value) for s in d.node.body if isinstance(s, ast.Assign)
              and isinstance(s.targets[0], ast.Attribute)}
        ok = all(st.get(f"self.{f}") == f for f in fields)
        col.check(ok, "R-ROLE", d.qualname, d.loc(), f"{cls} stores {fields} under their own names", "",
                  f"field stores: {st}", stmt="fields")
    # unions: V1 + V2 - V(intersection)
    for cls, inter in (("VolSphere2Union", "VolSphere2Intersection.calc_intersect_volume"),
                       ("VolSphereFrustumConeUnion", "VolSphereFrustumConeIntersection.calc_concentric_intersect_volume")):
        d = repo.get_def(f"{MOD}.{cls}._get_volume")
        e = single_return(d)
        if e is None:
            col.unresolved(R_, d.qualname, d.loc(), f"{cls}: inclusion-exclusion", "not a single return", stmt="union")
            continue

        def atoms(call, inter=inter, cls=cls):
            s = norm_src(call)
            if s == "self.obj1.get_volume()":
                return S("A")
            if s == "self.obj2.get_volume()":
                return S("B")
            if s == f"{inter}(self.obj1, self.obj2)":
                return S("I")
            if s == f"{inter}(self.obj2, self.obj1)" and cls == "VolSphere2Union":
                return S("I")  # the lens of two spheres is symmetric in its operands
            return None
        try:
            got = Translator({}, make_inline(ctx, d, atoms)).tr(e)
            col.check(got.same(S("A") + S("B") - S("I")), R_, d.qualname, d.loc(),
                      f"{cls}: V(a) + V(b) - V(a and b) with the operands in their own order", norm_src(e),
                      f"`{norm_src(e)}` = {got}, expected A + B - I", stmt="union")
        except NotPolynomial as ex:
            # another way of writing the union (a shared helper, the overlap handed in as a callable ...): not a verdict
            col.unresolved(R_, d.qualname, d.loc(), f"{cls}: V(a) + V(b) - V(a and b) with the operands in their own order",
                           f"`{norm_src(e)[:80]}` cannot be read as a polynomial in the two volumes and the overlap: {ex}", stmt="union")


# --------------------------------------------------------------------------- two spheres


GRID = [F(x, 2) for x in range(0, 11)]  # 0, 1/2, ..., 5


def lens_cells(ctx, col):
    repo = ctx.repo
    qual = f"{MOD}.VolSphere2Intersection.calc_intersect_volume"
    d = repo.get_def(qual)
    body = [s for s in d.node.body if not (isinstance(s, ast.Expr) and isinstance(s.value, ast.Constant))]
    p1, p2 = d.params[:2]
    # role binding: radii and centre distance
    roles = {}
    rest = []
    for s in body:
        src = norm_src(s)
        if src == f"r1, r2 = ({p1}.radius, {p2}.radius)" or src == f"r1, r2 = {p1}.radius, {p2}.radius":
            roles["r"] = s
        elif isinstance(s, ast.Assign) and norm_src(s.targets[0]) == "d" and "r" in roles and "d" not in roles:
            roles["d"] = s
        else:
            rest.append(s)
    okr = "r" in roles
    col.judge(okr, True, "R-ROLE", qual, d.loc(), "r1, r2 are the radii of the first and second operand", "",
              detail_unrec="no `r1, r2 = obj1.radius, obj2.radius` binding found", stmt="radii")
    dv = norm_src(roles["d"].value) if "d" in roles else ""
    okd = dv in (f"np.linalg.norm({p1}.center - {p2}.center).item()", f"np.linalg.norm({p2}.center - {p1}.center).item()",
                 f"np.linalg.norm({p1}.center - {p2}.center)", f"np.linalg.norm({p2}.center - {p1}.center)")
    via_rewrite = False
    if okr and not okd:
        # another way of getting at the centre distance (squared distance first, the root taken later, a named difference vector ...):
        # every expression that denotes |c1 - c2| or its square is replaced by the symbol, and the body is evaluated as it stands
        import copy as _copy
        raw = {}
        for s_ in body:
            if isinstance(s_, ast.Assign) and len(s_.targets) == 1 and isinstance(s_.targets[0], ast.Name):
                raw.setdefault(s_.targets[0].id, s_.value)
        rw = _DistRewrite(p1, p2, raw)
        new_rest = []
        for s_ in body:
            if s_ is roles.get("r"):
                continue
            if isinstance(s_, ast.Assign) and len(s_.targets) == 1 and isinstance(s_.targets[0], ast.Name) and rw._is_diff(s_.value):
                continue  # the difference vector itself: only its norm / square enters
            new_rest.append(ast.fix_missing_locations(rw.visit(_copy.deepcopy(s_))))
        if rw.hits:
            via_rewrite = True
            rest = new_rest
            col.ok("R-ROLE", qual, d.loc(), "d is the distance between the two centres", f"{rw.hits} expression(s) denoting |c1 - c2| or its square recognised", stmt="dist")
    if not via_rewrite:
        col.judge("d" in roles, okd, "R-ROLE", qual, d.loc(roles["d"]) if "d" in roles else d.loc(),
                  "d is the distance between the two centres", dv, f"d = `{dv}`", stmt="dist")
        if not (okr and "d" in roles):
            return
    syms = ["d", "r1", "r2"]
    base = {s: S(s) for s in syms}
    if via_rewrite:
        base["__d__"] = S("d")
        base.pop("d")
    # arrangement: oracle planes + every guard of the code
    planes = [S("d") - S("r1") - S("r2"), S("d") - S("r1") + S("r2"), S("d") + S("r1") - S("r2"), S("r1") - S("r2"), S("d")]
    try:
        probe = Translator(dict(base), make_inline(ctx, d), {"d": F(1), "r1": F(2), "r2": F(3), "pi": F(3)})
        for s in ast.walk(ast.Module(body=rest, type_ignores=[])):
            if isinstance(s, ast.Assign) and len(s.targets) == 1 and isinstance(s.targets[0], ast.Name) and s.targets[0].id not in probe.env:
                try:
                    probe.env[s.targets[0].id] = probe.tr(s.value)  # locals the guards are written in (a squared distance, a sum of radii)
                except (NotPolynomial, ZeroDivisionError):
                    pass
            if isinstance(s, ast.If):
                for tst in _abs_variants(s.test):
                    for g in probe.guard_polys(tst):
                        if not any(g.same(p) or g.same(-p) for p in planes):
                            planes.append(g)
            if isinstance(s, ast.Call) and (dotted(s.func) or "").rsplit(".", 1)[-1] in ("abs", "fabs", "absolute", "min", "max", "minimum", "maximum"):
                # abs / min / max outside a test select a case too: the sign of the argument (of the difference of the arguments) is a face
                try:
                    if len(s.args) == 1:
                        g = probe.tr(s.args[0])
                    elif len(s.args) == 2:
                        g = probe.tr(s.args[0]) - probe.tr(s.args[1])
                    else:
                        g = None
                    if g is not None and g.symbols() - {"pi"} and not any(g.same(p) or g.same(-p) for p in planes):
                        planes.append(g)
                except (NotPolynomial, ZeroDivisionError):
                    pass
    except (NotPolynomial, ZeroDivisionError, KeyError):
        pass
    cs = cells(planes, syms, GRID, positive={"r1", "r2"})
    col.analysed["lens_cells"] = len(cs)
    n_bad = 0
    for sv, pt in cs:
        w = {**pt, "pi": F(355, 113)}
        dd, a, b = pt["d"], pt["r1"], pt["r2"]
        lo, hi = abs(a - b), a + b
        # the definition, per region (boundaries: either neighbour)
        cands = []
        if dd > hi:
            cands = [("disjoint", C(0))]
        elif dd == hi:
            cands = [("tangent", C(0))]
        elif lo < dd < hi:
            cands = [("overlap", lens(S("r1"), S("r2"), S("d")))]
        else:  # dd <= lo : nested (incl. internal tangency)
            small = S("r1") if a <= b else S("r2")
            cands = [("nested", sphere(small))]
            if a == b:
                cands.append(("coincident", sphere(S("r2"))))
        what = f"cell d={dd}, r1={a}, r2={b} ({cands[0][0]})"
        try:
            def _own_volume(call, p1=p1, p2=p2):
                # the operands are spheres (the class's constructor takes two VolSphere): their own volume is the sphere formula of their radius
                f_ = dotted(call.func) or ""
                if not call.args and not call.keywords and f_ in (f"{p1}.get_volume", f"{p1}._get_volume"):
                    return sphere(S("r1"))
                if not call.args and not call.keywords and f_ in (f"{p2}.get_volume", f"{p2}._get_volume"):
                    return sphere(S("r2"))
                return None
            ev = CellEval(lambda env, w=w: Translator(env, make_inline(ctx, d, atoms=_own_volume), w))
            kind, val, node = ev.run(rest, dict(base))
        except ZeroDivisionError:
            col.bad("R-CELL", qual, d.loc(), what, "the branch taken divides by zero at this configuration "
                    "(coincident centres reach the general formula)", stmt=f"cell:{cands[0][0]}:{_sgn(a - b)}")
            n_bad += 1
            continue
        except NotPolynomial as e:
            col.unresolved("R-CELL", qual, d.loc(), what, f"outside the polynomial sub-language: {e}", stmt="cell")
            return
        if kind != "return":
            col.bad("R-CELL", qual, d.loc(node) if node is not None else d.loc(), what,
                    f"no value is returned for this configuration ({kind})", stmt=f"cell:{cands[0][0]}:{_sgn(a - b)}")
            continue
        sym_ok = any(val.same(o) for _, o in cands)
        num_ok = False
        if not sym_ok:
            # on a boundary cell the returned formula may be the neighbour's: compare values there
            on_boundary = dd in (lo, hi)
            if on_boundary:
                try:
                    num_ok = any(val.value(w) == o.value(w) for _, o in cands)
                except ZeroDivisionError:
                    num_ok = False
        col.check(sym_ok or num_ok, "R-CELL", qual, d.loc(node), what, f"returns `{norm_src(node.value)}`",
                  f"returns `{norm_src(node.value)}` = {val}; the definition gives {cands[0][1]} "
                  f"({cands[0][0]} spheres)", stmt=f"cell:{cands[0][0]}:{_sgn(a - b)}:{_sgn(dd)}")
    # homogeneity of the general branch
    try:
        g = lens(S("r1"), S("r2"), S("d"))
        col.check(g.degree_profile() == {3}, "R-GEO", qual, d.loc(), "lens: homogeneous of degree 3", "", "", stmt="deg:lens")
    except Exception:  # noqa: BLE001
        pass


def _sgn(x):
    return "+" if x > 0 else ("-" if x < 0 else "0")


# --------------------------------------------------------------------------- sphere + frustum


def concentric(ctx, col):
    repo = ctx.repo
    qual = f"{MOD}.VolSphereFrustumConeIntersection.calc_concentric_intersect_volume"
    d = repo.get_def(qual)
    sp, fc = d.params[:2]
    body = [s for s in d.node.body if not (isinstance(s, ast.Expr) and isinstance(s.value, ast.Constant))]
    R_ = "R-ROLE"
    src = {i: norm_src(s) for i, s in enumerate(body)}
    # --- role bindings -----------------------------------------------------
    def find(pred):
        for i, s in enumerate(body):
            if pred(s, src[i]):
                return i, s
        return None, None
    ih, sh = find(lambda s, t: t == f"h = {fc}.height()")
    col.judge(True, sh is not None, R_, qual, d.loc(sh) if sh is not None else d.loc(), "h is the frustum's height", "",
              "no `h = frustum_cone.height()`", stmt="h")
    ic, sc = find(lambda s, t: t in (f"c1, r1 = ({sp}.center, {sp}.radius)", f"c1, r1 = {sp}.center, {sp}.radius"))
    col.judge(True, sc is not None, R_, qual, d.loc(sc) if sc is not None else d.loc(), "c1, r1 are the sphere's centre and radius", "",
              "no `c1, r1 = sphere.center, sphere.radius`", stmt="c1r1")
    iladder, ladder = find(lambda s, t: isinstance(s, ast.If) and "allclose" in t and f"{fc}.c1" in t)
    if ladder is None:
        raise AnalysisError("anchor-vanished: the end-matching ladder of calc_concentric_intersect_volume")
    arms = []
    cur = ladder
    while isinstance(cur, ast.If):
        arms.append((cur.test, cur.body))
        cur = cur.orelse[0] if len(cur.orelse) == 1 and isinstance(cur.orelse[0], ast.If) else (cur.orelse or None)
        if not isinstance(cur, ast.If):
            tail = cur
            break
    for test, b in arms:
        t = norm_src(test)
        k = "1" if f"{fc}.c1" in t else ("2" if f"{fc}.c2" in t else None)
        okt = k is not None and f"np.allclose(c1, {fc}.c{k})" in t and f"np.allclose(r1, {fc}.r{k})" in t
        other = {"1": "2", "2": "1"}.get(k)
        bs = [norm_src(s) for s in b]
        want = [f"c2, r2 = ({fc}.c{other}, {fc}.r{other})", f"c2, r2 = {fc}.c{other}, {fc}.r{other}"]
        import re as _re
        mm = _re.fullmatch(rf"c2, r2 = \(?{fc}\.c([12]), {fc}\.r([12])\)?", bs[0]) if len(bs) == 1 else None
        if k is not None and okt and mm is not None:
            col.check(mm.group(1) == other and mm.group(2) == other, R_, qual, d.loc(b[0]),
                      f"sphere on end {k}: (c2, r2) is the other end", bs[0],
                      f"sphere matched on end {k}, but `{bs[0]}` takes centre from end {mm.group(1)} and radius from end {mm.group(2)}: "
                      f"the far radius of the frustum must be r{other}", stmt=f"pair:{k}", definite=True)
        else:
            col.judge(k is not None and len(bs) == 1, okt and bs[0] in want, R_, qual, d.loc(b[0]),
                      f"sphere on end {k}: centre and radius are matched against the same end, and (c2, r2) is the other end",
                      bs[0] if bs else "", f"arm testing end {k}: test `{t}`, binding `{bs[0] if bs else ''}`; expected the other end "
                      f"`c2, r2 = {fc}.c{other}, {fc}.r{other}`", stmt=f"pair:{k}")
    ok_tail = isinstance(tail, list) and len(tail) == 1 and isinstance(tail[0], ast.Raise)
    col.check(ok_tail, R_, qual, d.loc(ladder), "a sphere on neither end is rejected (no closed form)", "",
              "the non-concentric case does not raise", stmt="pair:else")
    # geometry of the exit point
    col.text_group(R_, qual, d, [
        ("axis direction = unit vector from the sphere's end to the other end", ["up = (c2 - c1) / np.linalg.norm(c2 - c1)"], "up"),
        ("v is a unit vector perpendicular to the axis", ["v = find_unit_vector_on_plane(up)"], "v"),
        ("the side line runs from the rim at the sphere's end (c1 + r1 v) to the rim at the other end (c2 + r2 v), against the sphere (c1, r1)",
         ["intersections = find_sphere_line_intersection(c1, r1, c1 + r1 * v, c2 + r2 * v)"], "slant"),
        ("the exit point is the intersection with the larger line parameter", ["t, p = max(intersections, key=lambda x: x[0])"], "exit"),
        ("M = foot of the exit point on the axis", ["M = project_point_on_line(c1, up, p)"], "M"),
        ("h1 = axial height of the exit point above the sphere's centre", ["h1 = np.linalg.norm(M - c1).item()", "h1 = np.linalg.norm(c1 - M).item()"], "h1"),
        ("r3 = radius of the cone at the exit height", ["r3 = np.linalg.norm(M - p).item()", "r3 = np.linalg.norm(p - M).item()"], "r3"),
    ], fixed=("find_unit_vector_on_plane", "find_sphere_line_intersection", "project_point_on_line"))
    # --- orientation of the axis ------------------------------------------
    # an axis taken from the frustum's own ends (c2 - c1 of the frustum) points away from the sphere on one end and towards it on the other; lengths, perpendicular
    # vectors and projections ON the line do not care, a signed component (np.dot(x, axis), x @ axis) does
    col.rule("R-AXISSIGN", "signed components are taken along an axis that points from the sphere's end to the other end: no dot product with a direction derived from the frustum's own "
             "c2 - c1 (whose sense does not depend on the end the sphere sits on) unless its sign is discarded (abs / norm / square); zero expected", floor=1)
    fixed_axis = set()
    for _round in range(3):
        for a_ in own_nodes(d):
            if isinstance(a_, ast.Assign) and len(a_.targets) == 1 and isinstance(a_.targets[0], ast.Name):
                t_ = norm_src(a_.value)
                from_frustum = any(isinstance(b_, ast.BinOp) and isinstance(b_.op, ast.Sub) and {norm_src(b_.left), norm_src(b_.right)} == {f"{fc}.c1", f"{fc}.c2"} for b_ in ast.walk(a_.value))
                derived = any(isinstance(n_, ast.Name) and n_.id in fixed_axis for n_ in ast.walk(a_.value)) and not any(
                    isinstance(c_, ast.Call) and (dotted(c_.func) or "").rsplit(".", 1)[-1] in ("norm", "abs", "dot", "find_unit_vector_on_plane", "cross") for c_ in ast.walk(a_.value)
                    if not (isinstance(c_, ast.Call) and (dotted(c_.func) or "").rsplit(".", 1)[-1] == "norm" and isinstance(a_.value, ast.BinOp) and isinstance(a_.value.op, ast.Div)
                            and any(x is c_ for x in ast.walk(a_.value.right))))
                if from_frustum and "norm(" not in t_.split("/")[0] or derived:
                    fixed_axis.add(a_.targets[0].id)
    rebound = {n_ for n_ in fixed_axis if sum(1 for a_ in own_nodes(d) if isinstance(a_, (ast.Assign, ast.AugAssign)) and any(
        isinstance(t_, ast.Name) and t_.id == n_ for t_ in (a_.targets if isinstance(a_, ast.Assign) else [a_.target]))) > 1}
    n_sign = 0
    for c_ in own_nodes(d):
        is_dot = isinstance(c_, ast.Call) and (dotted(c_.func) or "").rsplit(".", 1)[-1] in ("dot", "inner", "vdot")
        is_mat = isinstance(c_, ast.BinOp) and isinstance(c_.op, ast.MatMult)
        if not (is_dot or is_mat):
            continue
        ops = (list(c_.args) + ([c_.func.value] if isinstance(c_.func, ast.Attribute) and not (dotted(c_.func) or "").startswith(("np.", "numpy.")) else [])) if is_dot else [c_.left, c_.right]
        hit = [o_ for o_ in ops if isinstance(o_, ast.Name) and o_.id in fixed_axis]
        if not hit or len([o_ for o_ in ops if isinstance(o_, ast.Name) and o_.id in fixed_axis]) == len(ops):
            continue   # axis . axis has no sign problem
        # is the sign discarded?
        wrapped = any(isinstance(w_, ast.Call) and (dotted(w_.func) or "").rsplit(".", 1)[-1] in ("abs", "fabs", "absolute", "square") and any(x is c_ for x in ast.walk(w_)) for w_ in own_nodes(d)) \
            or any(isinstance(w_, ast.BinOp) and isinstance(w_.op, ast.Pow) and any(x is c_ for x in ast.walk(w_.left)) for w_ in own_nodes(d))
        if wrapped:
            continue
        n_sign += 1
        if hit[0].id in rebound:
            col.unresolved("R-AXISSIGN", qual, d.loc(c_), "signed components are measured away from the sphere's end", f"`{hit[0].id}` is bound more than once", stmt="axis-sign")
        else:
            col.bad("R-AXISSIGN", qual, d.loc(c_), "signed components are measured away from the sphere's end",
                    f"`{norm_src(c_)[:70]}` takes a signed component along `{hit[0].id}`, which is derived from `{fc}.c2 - {fc}.c1`: with the sphere on the second end that axis points back "
                    f"into the sphere, the height comes out negative and the cap / frustum terms are evaluated at a wrong height (a child thicker than its parent in a tree)", stmt="axis-sign", definite=True)
    if not n_sign:
        col.ok("R-AXISSIGN", qual, d.loc(), "signed components are measured away from the sphere's end", f"axes fixed by the frustum's own ends: {sorted(fixed_axis) or 'none'}; no signed use", stmt="axis-sign")
    # --- cell table --------------------------------------------------------
    # the statements after the role bindings, with the geometric ones replaced by symbols
    skip_prefix = ("h = ", "c1, r1 = ", "up = ", "v = ", "intersections = ", "t, p = ", "M = ", "h1 = ", "r3 = ")
    rest = []
    for i, s in enumerate(body):
        if s is ladder or src[i].startswith(skip_prefix) or isinstance(s, ast.Assert):
            continue
        if isinstance(s, ast.If) and "len(intersections)" in norm_src(s.test):
            continue
        rest.append(s)
    syms = ["h", "r1", "r2", "t", "h1", "r3"]
    base = {s: S(s) for s in syms}
    base["eps"] = C(0)

    def atoms(call):
        if norm_src(call) == f"{fc}.get_volume()":
            return frustum(S("r1"), S("r2"), S("h"))  # checked separately (R-FORM wiring)
        return None
    planes = [S("r2") - S("r1"), S("h") - S("r1"), S("t") - C(1)]
    small = [F(1, 2), F(1), F(2), F(3)]
    seen = {}
    import itertools
    for h, r1, r2, t in itertools.product(small, small, small, [F(1, 2), F(1), F(2)]):
        pt = {"h": h, "r1": r1, "r2": r2, "t": t, "h1": F(1, 3), "r3": F(2, 3)}
        sv = tuple(_sgn(p.value({**pt, "pi": F(3)})) for p in planes)
        seen.setdefault(sv, pt)
    col.analysed["concentric_cells"] = len(seen)
    for sv, pt in seen.items():
        w = {**pt, "pi": F(355, 113), "eps": F(0)}
        h, r1, r2, t = pt["h"], pt["r1"], pt["r2"], pt["t"]
        # the definition
        if r2 >= r1:
            if h >= r1:
                name, o = "sphere on the smaller end, tall frustum: hemisphere", [cap(S("r1"), S("r1"))]
            else:
                name, o = "sphere on the smaller end, short frustum: hemisphere minus the cap above the top face", \
                    [cap(S("r1"), S("r1")) - cap(S("r1"), S("r1") - S("h"))]
            if r2 == r1 or h == r1:
                o.append(cap(S("r1"), S("r1")))
                o.append(cap(S("r1"), S("r1")) - cap(S("r1"), S("r1") - S("h")))
        elif t > 1:
            name, o = "sphere on the larger end, side never leaves the sphere: whole frustum", [frustum(S("r1"), S("r2"), S("h"))]
        else:
            lower = cap(S("r1"), S("r1") - S("h1")) + frustum(S("r1"), S("r3"), S("h1"))
            if h >= r1:
                name, o = "sphere on the larger end, tall frustum: cone part up to the exit circle + cap above it", [lower]
            else:
                name, o = "sphere on the larger end, short frustum: the same minus the cap above the top face", \
                    [lower - cap(S("r1"), S("r1") - S("h"))]
            if t == 1:
                o.append(frustum(S("r1"), S("r2"), S("h")))
            if h == r1:
                o += [lower, lower - cap(S("r1"), S("r1") - S("h"))]
        what = f"cell {''.join(sv)} (r2?r1, h?r1, t?1): {name}"
        try:
            ev = CellEval(lambda env, w=w: Translator(env, make_inline(ctx, d, atoms), w))
            kind, val, node = ev.run(rest, dict(base))
        except (NotPolynomial, KeyError) as e:
            col.unresolved("R-CELL", qual, d.loc(), what, f"outside the polynomial sub-language: {e}", stmt="ccell")
            return
        if kind != "return":
            col.bad("R-CELL", qual, d.loc(), what, f"no value returned ({kind})", stmt=f"ccell:{''.join(sv)}")
            continue
        col.check(any(val.same(x) for x in o), "R-CELL", qual, d.loc(node), what, f"returns `{norm_src(node.value)}`",
                  f"returns `{norm_src(node.value)}`, which expands to {val}; the definition gives {o[0]}",
                  stmt=f"ccell:{''.join(sv)}")
    # the dispatching _get_volume: closed form only when on an end (centre AND radius of the same end)
    g = repo.get_def(f"{MOD}.VolSphereFrustumConeIntersection._get_volume")
    ifs = [s for s in g.node.body if isinstance(s, ast.If)]
    ok = False
    if len(ifs) == 1 and isinstance(ifs[0].test, ast.BoolOp) and isinstance(ifs[0].test.op, ast.Or):
        pairs = []
        for v in ifs[0].test.values:
            t = norm_src(v)
            for k in "12":
                if f"np.allclose(self.obj1.center, self.obj2.c{k})" in t and f"np.allclose(self.obj1.radius, self.obj2.r{k})" in t \
                        and isinstance(v, ast.BoolOp) and isinstance(v.op, ast.And):
                    pairs.append(k)
        rets = [norm_src(s) for s in ifs[0].body]
        ok = sorted(pairs) == ["1", "2"] and rets == ["return self.calc_concentric_intersect_volume(self.obj1, self.obj2)"]
    # each conjunction of the guard must speak about ONE end of the frustum: a centre compared with end k together with the radius of end k
    import re as _re
    for t_ in [i_.test for i_ in ifs]:
        conjs = [v for v in (t_.values if isinstance(t_, ast.BoolOp) and isinstance(t_.op, ast.Or) else [t_]) if isinstance(v, ast.BoolOp) and isinstance(v.op, ast.And)]
        for v in conjs:
            ends = {}
            for a_ in ast.walk(v):
                if isinstance(a_, ast.Attribute):
                    m_ = _re.fullmatch(r"(c|r)([12])", a_.attr)
                    if m_:
                        ends.setdefault(m_.group(1), set()).add(m_.group(2))
            if ends.get("c") and ends.get("r") and len(ends["c"]) == 1 and len(ends["r"]) == 1:
                col.check(ends["c"] == ends["r"], "R-LADDER", g.qualname, g.loc(v), "a conjunct of the concentric guard compares centre and radius of the same end",
                          f"end {sorted(ends['c'])[0]}", f"`{norm_src(v)[:110]}` compares the sphere's centre with end {sorted(ends['c'])[0]} but its radius with end "
                          f"{sorted(ends['r'])[0]}: a sphere sitting on one end with the other end's radius is taken for concentric (and the true concentric case is not)",
                          stmt=f"guard-end:{sorted(ends['c'])[0]}", definite=True)
    last = g.node.body[-1]
    ok = ok and isinstance(last, ast.Return) and norm_src(last.value) == "super()._get_volume()"
    col.judge(len(ifs) == 1, ok, "R-LADDER", g.qualname, g.loc(), "closed form iff the sphere coincides with an end (centre and radius of the same end); "
              "otherwise the sampled volume", "", "the guard does not pair centre and radius of the same end / wrong fallback", stmt="guard")


# --------------------------------------------------------------------------- helpers


def _F_(x):
    from fractions import Fraction
    return Fraction(x)


def helpers(ctx, col):
    repo = ctx.repo
    R_ = "R-LINE"
    u = repo.get_def(f"{GEO}.find_unit_vector_on_plane")
    nparam = u.params[0]
    col.text_group(R_, u.qualname, u, [
        ("the result is the cross product of a helper direction with the normal ...", ["u = np.cross(r, normal_vec3)", "u = np.cross(normal_vec3, r)"], "cross"),
        ("... normalised", ["u /= np.linalg.norm(u)", "u = u / np.linalg.norm(u)"], "unit"),
    ], fixed=(nparam,))
    for c in own_nodes(u):
        if isinstance(c, ast.Call) and (dotted(c.func) or "").rsplit(".", 1)[-1] in ("argmin", "argmax") and c.args \
                and isinstance(c.args[0], ast.Name) and c.args[0].id == nparam:
            col.bad(R_, u.qualname, u.loc(c), "the helper direction is never parallel to the normal, whatever its signs",
                    f"`{norm_src(c)}` picks the coordinate by the SIGNED components of the normal: for a normal along a negative axis it picks "
                    f"that very axis, the cross product vanishes and the result is NaN (use the absolute values)", stmt="helper-axis", definite=True)
    # a helper direction that is not drawn at random must be excluded from BOTH directions of the normal
    randomised = any(isinstance(c, ast.Call) and ("random" in (dotted(c.func) or "")) for c in own_nodes(u))
    pos = neg = other = False
    for c in own_nodes(u):
        if isinstance(c, ast.Call) and (dotted(c.func) or "").rsplit(".", 1)[-1] in ("allclose", "array_equal", "isclose", "array_equiv"):
            for a_ in c.args[:2]:
                if isinstance(a_, ast.Name) and a_.id == nparam:
                    pos = True
                elif isinstance(a_, ast.UnaryOp) and isinstance(a_.op, ast.USub) and isinstance(a_.operand, ast.Name) and a_.operand.id == nparam:
                    neg = True
        elif isinstance(c, ast.Call) and (dotted(c.func) or "").rsplit(".", 1)[-1] in ("abs", "absolute", "dot", "norm") and any(
                isinstance(n, ast.Name) and n.id == nparam for n in ast.walk(c)) and any(isinstance(t_, (ast.If, ast.While)) and any(x is c for x in ast.walk(t_.test)) for t_ in own_nodes(u) if isinstance(t_, (ast.If, ast.While))):
            other = True
    if not randomised and pos and not neg and not other:
        col.bad(R_, u.qualname, u.loc(), "the helper direction is never parallel to the normal, whatever its signs",
                f"the fixed helper direction is compared with `{nparam}` but not with `-{nparam}`: for a normal pointing the opposite way the cross product "
                f"vanishes and the result is NaN (a segment that tapers straight down has no volume, the same segment rotated has)", stmt="helper-antiparallel", definite=True)
    else:
        col.ok(R_, u.qualname, u.loc(), "the helper direction is never parallel to the normal, whatever its signs",
               "random draw" if randomised else f"tests: +normal={pos} -normal={neg} other={other}", stmt="helper-antiparallel")
    # the routine folded exactly at one witness normal per pattern of signs / zeros / order of magnitudes of the components
    from ..vecfold import VecEval, direction_witnesses, Unsupported as _Uns, Randomised as _Rnd, ZeroNorm as _Zero, dot as _vdot, is_vec as _is_vec
    wit = direction_witnesses()
    bad = und = None
    n_ok = 0
    for w in wit:
        try:
            r = VecEval({nparam: w}).run(u.node.body)
        except _Rnd:
            und = "randomised"
            break
        except _Zero as z:
            bad = (w, f"{z}: the result is NaN")
            break
        except _Uns as x:
            und = str(x)
            break
        except Exception as x:  # noqa: BLE001 -- the folder met something it cannot represent: no verdict
            und = f"{type(x).__name__}: {x}"
            break
        if not (_is_vec(r) and len(r) == 3):
            und = f"result {r!r} is not a 3-vector"
            break
        if not any(r):
            bad = (w, "the result is the zero vector")
            break
        if _vdot(tuple(r), tuple(_F_(x) for x in w)) != 0:
            bad = (w, f"the result {tuple(str(x) for x in r)} is not perpendicular to the normal")
            break
        n_ok += 1
    what_t = f"for every pattern of signs, zeros and magnitude order of the normal's components ({len(wit)} exact witnesses) the result is a non-zero vector perpendicular to it"
    if bad is not None:
        col.bad(R_, u.qualname, u.loc(), what_t, f"normal {bad[0]}: {bad[1]} -- the closed-form sphere/frustum intersection (and with it the tree volume) is NaN for a "
                f"compartment with that axis, and correct for the same compartment in another pose", stmt="helper-table", definite=True)
    elif und == "randomised":
        col.ok(R_, u.qualname, u.loc(), what_t, "helper direction drawn at random: decided by the rejection test above", stmt="helper-table")
    elif und is not None:
        col.unresolved(R_, u.qualname, u.loc(), what_t, f"cannot fold the routine exactly: {und}", stmt="helper-table")
    else:
        col.ok(R_, u.qualname, u.loc(), what_t, f"{n_ok} witnesses folded", stmt="helper-table")
    d = repo.get_def(f"{GEO}.find_sphere_line_intersection")
    asg = {}
    for s in d.node.body:
        if isinstance(s, ast.Assign) and isinstance(s.targets[0], ast.Name):
            asg.setdefault(s.targets[0].id, s.value)

    def dot_atoms(call):
        if (dotted(call.func) or "") in ("np.dot", "numpy.dot") and len(call.args) == 2:
            a, b = sorted(norm_src(x) for x in call.args)
            return S(f"dot({a},{b})")
        if (dotted(call.func) or "") in ("np.sqrt", "math.sqrt") and len(call.args) == 1:
            return S(f"sqrt({norm_src(call.args[0])})")
        if (dotted(call.func) or "") in ("np.linalg.norm",) and len(call.args) == 1 and not call.keywords:
            return S(f"norm({norm_src(call.args[0])})")
        if (dotted(call.func) or "") in ("np.array", "np.asarray") and len(call.args) == 1:
            return Translator({k: S(k) for k in names}, None).tr(call.args[0])
        return None
    names = ["A", "B", "C", "D", "f", "a", "b", "c", "t", "t1", "t2", "discriminant", "sphere_radius",
             "line_point_a", "line_point_b", "sphere_center", "P", "n", "AP", "point_a", "direction_vector", "point_p"]
    env = {k: S(k) for k in names}

    def tr(e):
        r = Translator(dict(env), lambda c, t: dot_atoms(c)).tr(e)
        # |x|^2 = x.x
        return reduce_squares(r, "norm(", lambda sname: f"dot({sname[5:-1]},{sname[5:-1]})")
    checks = [
        ("A", S("line_point_a"), "A is the first line point"),
        ("B", S("line_point_b"), "B is the second line point"),
        ("C", S("sphere_center"), "C is the sphere centre"),
        ("D", S("B") - S("A"), "direction D = B - A (so t = 0 at A and t = 1 at B)"),
        ("f", S("A") - S("C"), "f = A - C"),
        ("a", S("dot(D,D)"), "a = D.D"),
        ("b", C(2) * S("dot(D,f)"), "b = 2 f.D"),
        ("c", S("dot(f,f)") - S("sphere_radius") ** 2, "c = f.f - r^2"),
        ("discriminant", S("b") ** 2 - C(4) * S("a") * S("c"), "discriminant = b^2 - 4ac"),
        ("t1", (-S("b") - S("sqrt(discriminant)")) / (C(2) * S("a")), "smaller root"),
        ("t2", (-S("b") + S("sqrt(discriminant)")) / (C(2) * S("a")), "larger root"),
        ("p1", S("A") + S("t1") * S("D"), "p1 = A + t1 D"),
        ("p2", S("A") + S("t2") * S("D"), "p2 = A + t2 D"),
    ]
    for name, oracle, what in checks:
        e = asg.get(name)
        if e is None:
            col.unresolved(R_, d.qualname, d.loc(), what, f"no assignment to `{name}`", stmt=name)
            continue
        try:
            got = tr(e)
            col.check(got.same(oracle), R_, d.qualname, d.loc(e), what, norm_src(e), f"`{name} = {norm_src(e)}` is {got}, expected {oracle}", stmt=name)
        except NotPolynomial as ex:
            col.unresolved(R_, d.qualname, d.loc(e), what, str(ex), stmt=name)
    rets = [norm_src(r.value) for r in own_nodes(d) if isinstance(r, ast.Return)]
    col.shape("[(t1, p1), (t2, p2)]" in rets and "[]" in rets, R_, d.qualname, d.loc(),
              "returns (parameter, point) pairs, smaller root first; none when the line misses", str(rets),
              f"returns {rets}", stmt="ret")
    neg = [s for s in d.node.body if isinstance(s, ast.If) and norm_src(s.test) == "discriminant < 0"]
    col.shape(len(neg) == 1 and norm_src(neg[0].body[0]) == "return []", R_, d.qualname, d.loc(),
              "no intersection iff the discriminant is negative", "", "the miss test is not `discriminant < 0`", stmt="miss")
    # projection
    p = repo.get_def(f"{GEO}.project_point_on_line")
    pa = {s.targets[0].id: s.value for s in p.node.body if isinstance(s, ast.Assign) and isinstance(s.targets[0], ast.Name)}
    for name, oracle, what in (("A", S("point_a"), "A is the line point"), ("n", S("direction_vector"), "n is the direction"),
                               ("P", S("point_p"), "P is the projected point"), ("AP", S("P") - S("A"), "AP = P - A"),
                               ("projection", S("A") + S("dot(AP,n)") / S("dot(n,n)") * S("n"), "projection = A + (AP.n / n.n) n")):
        e = pa.get(name)
        if e is None:
            col.unresolved(R_, p.qualname, p.loc(), what, f"no assignment to `{name}`", stmt="proj:" + name)
            continue
        try:
            got = tr(e)
            col.check(got.same(oracle), R_, p.qualname, p.loc(e), what, norm_src(e), f"`{name} = {norm_src(e)}` is {got}, expected {oracle}", stmt="proj:" + name)
        except NotPolynomial as ex:
            col.unresolved(R_, p.qualname, p.loc(e), what, str(ex), stmt="proj:" + name)


# --------------------------------------------------------------------------- ladders


def _ladder(d):
    """[(class tested, returned constructor text)] of an isinstance ladder + final return text."""
    out = []
    for s in d.node.body:
        if isinstance(s, ast.If) and isinstance(s.test, ast.Call) and dotted(s.test.func) == "isinstance":
            cls = norm_src(s.test.args[1])
            ret = [norm_src(r.value) for r in s.body if isinstance(r, ast.Return)]
            out.append((cls, ret[0] if ret else None))
    last = d.node.body[-1]
    return out, (norm_src(last.value) if isinstance(last, ast.Return) else norm_src(last))


def ladders(ctx, col):
    repo = ctx.repo
    R_ = "R-LADDER"
    want = {
        f"{MOD}.VolSphere.union": ([("VolSphere", "VolSphere2Union(self, obj)"), ("VolFrustumCone", "VolSphereFrustumConeUnion(self, obj)")], "super().union(obj)"),
        f"{MOD}.VolSphere.intersect": ([("VolSphere", "VolSphere2Intersection(self, obj)"), ("VolFrustumCone", "VolSphereFrustumConeIntersection(self, obj)")], "super().intersect(obj)"),
        f"{MOD}.VolFrustumCone.union": ([("VolSphere", "VolSphereFrustumConeUnion(obj, self)")], "super().union(obj)"),
    }
    for q, (arms, tail) in want.items():
        d = repo.get_def(q)
        got, last = _ladder(d)
        col.check(sorted(got) == sorted(arms) and last == tail, R_, q, d.loc(),
                  f"{q.rsplit('.', 2)[-2]}.{d.name}: closed-form classes with the sphere as first operand; anything else falls back to sampling",
                  str(got), f"ladder is {got} then `{last}`; expected {arms} then `{tail}`", stmt="ladder")
    # operand typing: the composite classes are generic in (first operand, second operand); every construction site must pass
    # operands of those classes, as established by `self` and by the enclosing isinstance test
    declared = {}
    for c in repo.classes.values():
        if c.module.name != MOD:
            continue
        for b in c.node.bases:
            if isinstance(b, ast.Subscript) and isinstance(b.slice, ast.Tuple) and len(b.slice.elts) == 2 \
                    and all(isinstance(e, ast.Name) and f"{MOD}.{e.id}" in repo.classes for e in b.slice.elts):
                declared[c.name] = tuple(e.id for e in b.slice.elts)
    n_sites = 0
    for d in repo.all_defs():
        if d.module.name != MOD or d.cls is None or d.is_lambda:
            continue
        for call in own_nodes(d):
            if not (isinstance(call, ast.Call) and isinstance(call.func, ast.Name) and call.func.id in declared and len(call.args) == 2):
                continue
            n_sites += 1
            want_t = declared[call.func.id]
            got_t = []
            for a in call.args:
                t = None
                if isinstance(a, ast.Name) and a.id == "self":
                    t = d.cls.name
                elif isinstance(a, ast.Name):
                    x = repo.parent(call)
                    prev = call
                    while x is not None and x is not d.node:
                        if isinstance(x, ast.If) and any(prev is y for y in x.body) and isinstance(x.test, ast.Call) and dotted(x.test.func) == "isinstance" \
                                and len(x.test.args) == 2 and isinstance(x.test.args[0], ast.Name) and x.test.args[0].id == a.id and isinstance(x.test.args[1], ast.Name):
                            t = x.test.args[1].id
                            break
                        prev, x = x, repo.parent(x)
                got_t.append(t)
            what = f"{d.cls.name}.{d.name}: `{norm_src(call)}` passes ({want_t[0]}, {want_t[1]}) as the class declares"
            if None in got_t:
                col.unresolved(R_, d.qualname, d.loc(call), what, f"operand classes not established ({got_t})", stmt=f"operands:{call.func.id}")
            else:
                col.check(tuple(got_t) == want_t, R_, d.qualname, d.loc(call), what, str(got_t),
                          f"`{norm_src(call)}` passes ({got_t[0]}, {got_t[1]}) to {call.func.id}, which is declared over ({want_t[0]}, {want_t[1]}): its closed form "
                          f"reads `.center/.radius` of the first and `.c1/.r1/.c2/.r2` of the second operand", stmt=f"operands:{call.func.id}", definite=True)
    col.analysed["composite_construction_sites"] = n_sites
    # the composite classes declare their operand types in the same order
    for cls, base in (("VolSphere2Intersection", "VolSDFIntersection[VolSphere, VolSphere]"), ("VolSphere2Union", "VolSDFUnion[VolSphere, VolSphere]"),
                      ("VolSphereFrustumConeIntersection", "VolSDFIntersection[VolSphere, VolFrustumCone]"),
                      ("VolSphereFrustumConeUnion", "VolSDFUnion[VolSphere, VolFrustumCone]")):
        c = repo.get_class(f"{MOD}.{cls}")
        bases = [norm_src(b) for b in c.node.bases]
        col.check(base in bases, R_, c.qualname, f"{c.module.relpath}:{c.node.lineno}", f"{cls}: operand order (sphere first)", str(bases),
                  f"bases {bases}", stmt="bases")


def root_count(ctx, col):
    """Line / sphere intersection: the number of intersection points is decided by the sign of the discriminant, exactly."""
    from ..fold import Folder, Unfoldable
    repo = ctx.repo
    d = repo.get_def("swcgeom.utils.solid_geometry.find_sphere_line_intersection")
    want = {-1.0: 0, -1e-9: 0, 0.0: 1, 1e-12: 2, 1e-9: 2, 1.0: 2}
    # tolerances the tests are written with: keyword defaults and constants bound once in the function
    consts = {}
    a_ = d.node.args
    pos_ = a_.posonlyargs + a_.args
    for prm, dv in list(zip(pos_[len(pos_) - len(a_.defaults):], a_.defaults)) + [(k, v) for k, v in zip(a_.kwonlyargs, a_.kw_defaults) if v is not None]:
        if isinstance(dv, ast.Constant) and isinstance(dv.value, (int, float)) and not isinstance(dv.value, bool):
            consts[prm.arg] = dv.value
    for st_ in d.node.body:
        if isinstance(st_, ast.Assign) and len(st_.targets) == 1 and isinstance(st_.targets[0], ast.Name) and isinstance(st_.value, ast.Constant) \
                and isinstance(st_.value.value, (int, float)) and not isinstance(st_.value.value, bool):
            consts[st_.targets[0].id] = st_.value.value
    for v, n_want in want.items():
        n_got, why = None, ""
        try:
            for st in d.node.body:
                if isinstance(st, ast.If) and "discriminant" in {x.id for x in ast.walk(st.test) if isinstance(x, ast.Name)}:
                    if bool(Folder(repo, d.module, None, {**consts, "discriminant": v}).eval(st.test)):
                        ret = next((r for r in st.body if isinstance(r, ast.Return)), None)
                        if ret is None or not isinstance(ret.value, (ast.List, ast.Tuple)):
                            raise Unfoldable("the arm does not return a list display")
                        n_got = len(ret.value.elts)
                        break
                elif isinstance(st, ast.Return):
                    if not isinstance(st.value, (ast.List, ast.Tuple)):
                        raise Unfoldable("the final return is not a list display")
                    n_got = len(st.value.elts)
                    break
        except Unfoldable as e:
            why = str(e)
        what = f"discriminant = {v:g}: {n_want} intersection point(s)"
        if n_got is None:
            col.unresolved("R-LINE", d.qualname, d.loc(), what, why or "no return reached", stmt=f"roots:{v:g}")
        else:
            col.check(n_got == n_want, "R-LINE", d.qualname, d.loc(), what, f"{n_got}",
                      f"{n_got} point(s) are returned for a discriminant of {v:g}: the number of real roots is decided by the sign of the discriminant "
                      f"(a tolerance here turns every sufficiently small, i.e. small-scale, secant into a tangent)", stmt=f"roots:{v:g}", definite=True)
