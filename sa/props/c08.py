"""C08 -- branches, paths, tips and furcations decompose the tree exactly."""

from __future__ import annotations

import ast

from ..model import AnalysisError, dotted, norm_src, own_nodes
from ..rules import tables
from ..util import kwarg, names_in

TREE = "swcgeom.core.tree.Tree"
FURC = [False, False, True, True, True]  # furcation <=> two or more children (k = 0..4)
TIP = [True, False, False, False, False]  # tip <=> no children
PASS = [False, True, False, False, False]  # pass-through node <=> exactly one child


def run(ctx, col, tier):
    repo = ctx.repo
    from ..rules import negidx as _negidx
    _negidx.run(ctx, col, ('swcgeom.analysis.features', 'swcgeom.analysis.lmeasure', 'swcgeom.analysis.sholl', 'swcgeom.analysis.feature_extractor', 'swcgeom.core.tree', 'swcgeom.core.node', 'swcgeom.core.path', 'swcgeom.core.branch', 'swcgeom.transforms.tree'))
    from ..rules import endpoints as _endpoints
    _endpoints.run(ctx, col, ('swcgeom.core.tree', 'swcgeom.core.path', 'swcgeom.core.branch', 'swcgeom.core.node', 'swcgeom.core.tree_utils', 'swcgeom.core.tree_utils_impl', 'swcgeom.core.swc_utils.base', 'swcgeom.core.swc_utils.subtree', 'swcgeom.core.swc_utils.normalizer', 'swcgeom.core.swc_utils.io'))
    col.rule("R-PURE", "the branch tree and the original branches it remembers are detached copies: ownership abstract interpretation of "
             "BranchTree.from_tree -- no field of the result (node table, remembered branches) shares storage or objects with the source tree, so a "
             "later edit of the source does not change what the branch tree remembers", floor=1)
    col.guard(_branch_tree_fresh, ctx, col)
    col.rule("R-MEMO", "nothing computed from the tree is kept on the tree / node / path / branch object: outside construction and setters no "
             "method of these classes stores to self -- copies are deep and topology and coordinates are then edited in place (re-rooting, "
             "concatenation, node setters, transforms), so a kept decomposition or measure describes the tree before the edit; zero expected, "
             "positive examples are those of the transform-state lint", floor=1)
    from ..rules import smalllints as _small
    _small.run_shared(ctx, col, ('swcgeom.core.branch_tree', 'swcgeom.core.tree', 'swcgeom.core.branch', 'swcgeom.core.path', 'swcgeom.core.node', 'swcgeom.core.swc'))
    from ..rules import stateless as _stateless
    _stateless.check_memo(ctx, col, "R-MEMO", ("swcgeom.core.tree", "swcgeom.core.path", "swcgeom.core.node", "swcgeom.core.branch",
                                               "swcgeom.core.compartment", "swcgeom.core.branch_tree", "swcgeom.core.swc", "swcgeom.core.segment"))
    col.rule("R-FLUSH", "the chain still open when the post-order accumulation returns to the "
             "outermost call (the stem of a root with one child, or a whole unbranched chain) is "
             "closed into a branch: consumed at the call site or closed by a root-specific arm",
             floor=1, shape=True)
    col.rule("R-THRESH", "child-count predicates: furcation <=> children >= 2 in every copy of the "
             "predicate, tip <=> children = 0, pass-through <=> exactly one child (tables over "
             "k = 0..4)", floor=6, exhaustive=True, shape=True)
    col.rule("R-BRANCH", "branch accumulation: a pass-through node extends the open chain; any "
             "other node closes one branch per child chain (child chain + this node, reversed to "
             "run root-wards first) and opens a new chain at itself; branch views index the tree",
             floor=3, shape=True)
    col.rule("R-PATH", "paths: every node's path is a copy of its parent's path plus itself; tips "
             "return their own path, inner nodes the concatenation of their children's", floor=4, shape=True)
    col.rule("R-BTREE", "branch tree: nodes are the root plus each branch's end node, each "
             "parented to the branch's start node; original branches are filed under the new id "
             "of their start node", floor=4, shape=True)
    col.not_decided += ["the partition property as a statement over all trees (follows from the "
                        "clauses above for well-formed trees, not proved here)"]

    col.guard(anchored, ctx, col)
    from ..rules import callbacks
    callbacks.check(ctx, col, "R-BRANCH", ctx.repo.get_def("swcgeom.core.tree.Tree.get_branches"))
    callbacks.check(ctx, col, "R-PATH", ctx.repo.get_def("swcgeom.core.tree.Tree.get_paths"))
    from .c04 import recursion_free
    col.rule("R-CG", "the decompositions are recursion-free: no strong call-graph cycle is reachable from get_branches / get_paths / get_furcations / get_tips / "
             "BranchTree.from_tree / ToLongestPath (callbacks excluded), so a chain of any depth is decomposed without growing the interpreter stack", floor=4)
    for q_ in ("swcgeom.core.tree.Tree.get_branches", "swcgeom.core.tree.Tree.get_paths", "swcgeom.core.tree.Tree.get_furcations", "swcgeom.core.tree.Tree.get_tips",
               "swcgeom.core.branch_tree.BranchTree.from_tree", "swcgeom.transforms.tree.ToLongestPath.__call__"):
        col.guard(recursion_free, ctx, col, "R-CG", [q_], f"recursion-free from {q_.rsplit('.', 2)[-2]}.{q_.rsplit('.', 1)[-1]}")
    col.guard(longest, ctx, col)
    col.guard(get_branches, ctx, col)
    col.guard(thresholds, ctx, col)
    col.guard(get_paths, ctx, col)
    col.guard(branch_tree, ctx, col)


def _callback_of(ctx, d, kw):
    calls = [n for n in own_nodes(d) if isinstance(n, ast.Call) and isinstance(n.func, ast.Attribute)
             and n.func.attr == "traverse"]
    for c in calls:
        v = kwarg(c, kw)
        if isinstance(v, ast.Name) and v.id in d.nested:
            return c, d.nested[v.id]
    raise AnalysisError(f"anchor-vanished: `.traverse({kw}=<local def>)` in {d.qualname}")


def _branch_tree_fresh(ctx, col):
    from .. import own
    d = ctx.repo.get_def("swcgeom.core.branch_tree.BranchTree.from_tree")
    I = own.Interp(ctx)
    args = [own.ClassV(d.cls)] + [I.value_for_annotation(d, p, "P:" + p) for p in d.params[1:]]
    r = I.call_def(d, args, {})
    if not isinstance(r, own.Obj):
        col.unresolved("R-PURE", d.qualname, d.loc(), "BranchTree.from_tree: result is fresh", f"result abstracted to {type(r).__name__}; notes: {I.notes[:3]}", stmt="btree-fresh")
        return
    shared = {k: sorted(x[2:] for x in own.storage_owners(v)) for k, v in r.fields.items() if own.storage_owners(v)}
    if r.obj_owners or shared:
        col.bad("R-PURE", d.qualname, d.loc(), "BranchTree.from_tree: result is fresh",
                f"field(s) {shared or 'the object itself'} of the branch tree share storage / objects with the source tree: what the branch tree remembers "
                f"(the original points of every branch) changes when the source tree is edited afterwards", stmt="btree-fresh", definite=True)
    else:
        col.ok("R-PURE", d.qualname, d.loc(), "BranchTree.from_tree: result is fresh", f"{I.stores_seen} store sites met; every field freshly allocated / detached", stmt="btree-fresh")


def get_branches(ctx, col):
    repo = ctx.repo
    d = repo.get_def(f"{TREE}.get_branches")
    call, cb = _callback_of(ctx, d, "leave")
    node_p, pre_p = cb.params[:2]
    rets = [n for n in own_nodes(cb) if isinstance(n, ast.Return)]
    if not rets or not all(isinstance(r.value, ast.Tuple) and len(r.value.elts) == 2 for r in rets):
        col.unresolved("R-FLUSH", d.qualname, cb.loc(), "accumulator shape", "callback does not return (closed, open) pairs")
        return
    # pass-through code: where the node's own id is appended to an open chain OUTSIDE the loop over the child chains;
    # the condition under which that statement runs (enclosing tests and earlier guards, sa/pathcond.py) is the
    # pass-through predicate, whichever way round the `if` is written
    from .. import pathcond

    def _in_loop(st):
        p = repo.parent(st)
        while p is not None and p is not cb.node:
            if isinstance(p, (ast.For, ast.While)):
                return True
            p = repo.parent(p)
        return False
    ext = [st for st in own_nodes(cb) if isinstance(st, ast.Expr) and isinstance(st.value, ast.Call)
           and isinstance(st.value.func, ast.Attribute) and st.value.func.attr == "append" and len(st.value.args) == 1
           and norm_src(st.value.args[0]) == f"{node_p}.id" and not _in_loop(st)]
    if len(ext) != 1:
        col.unresolved("R-THRESH", cb.qualname, cb.loc(), "pass-through test", "no single place where the node joins the open chain outside the child loop")
        return
    tests, complete = pathcond.conditions_at(cb.node, ext[0])
    tab = tables.count_table(repo, cb.module, pathcond.as_expr(tests)) if tests else None
    if tab is None:
        col.unresolved("R-THRESH", cb.qualname, cb.loc(ext[0]), "pass-through test", "the condition under which the node joins the open chain is not a child-count test")
        return
    # the arm: the block the extension statement is in
    arm_block = None
    for owner in ast.walk(cb.node):
        for f in ("body", "orelse"):
            b = getattr(owner, f, None)
            if isinstance(b, list) and any(x is ext[0] for x in b):
                arm_block = b
    k0 = next(i for i, x in enumerate(arm_block) if x is ext[0])

    class _Arm:  # the statements from the extension to the end of its block
        body = arm_block[max(0, k0 - 1):]
        test = pathcond.as_expr(tests)
        lineno = ext[0].lineno
    arm = _Arm
    col.check(tab == PASS, "R-THRESH", cb.qualname, cb.loc(ext[0]), "branch accumulation: pass-through <=> exactly one child",
              f"{norm_src(arm.test)} -> {tab}", f"the node joins the open chain under `{norm_src(arm.test)}`, true for child counts "
              f"{[k for k, v in enumerate(tab) if v]}, expected [1]", stmt="passthrough", definite=complete)
    # in the pass-through arm the open chain is extended and returned unclosed
    src_arm = [norm_src(s) for s in arm.body]
    opens = [r for s_ in arm.body for r in ast.walk(s_) if isinstance(r, ast.Return)]
    closes_in_arm = any(isinstance(x, ast.Call) and (dotted(x.func) or "").endswith("Branch") for s_ in arm.body for x in ast.walk(s_))
    ok = len(opens) == 1 and not closes_in_arm and any(f".append({node_p}.id)" in s for s in src_arm)
    col.check(ok, "R-BRANCH", cb.qualname, cb.loc(arm), "a pass-through node extends the open chain with its own id and passes it up unclosed",
              "; ".join(src_arm), "pass-through arm does not append the node to the open chain / closes it", stmt="extend")
    # other nodes: one branch per child chain
    loops = [n for n in cb.node.body if isinstance(n, ast.For)]
    ok = False
    txt = ""
    if len(loops) == 1 and isinstance(loops[0].target, ast.Tuple):
        lp = loops[0]
        sb, ch = [e.id for e in lp.target.elts]
        body = [norm_src(s) for s in lp.body]
        txt = "; ".join(body)
        mk = [x for x in ast.walk(lp) if isinstance(x, ast.Call) and (dotted(x.func) or "").endswith("Branch")]
        ok = norm_src(lp.iter) == pre_p and f"{ch}.append({node_p}.id)" in body and f"{ch}.reverse()" in body \
            and len(mk) == 1 and norm_src(mk[0].args[0]) == "self" and ch in names_in(mk[0].args[1]) \
            and body.index(f"{ch}.append({node_p}.id)") < body.index(f"{ch}.reverse()") \
            and any(s.startswith(f"{sb}.append(") for s in body) and any(s == f"branches.extend({sb})" for s in body)
    col.check(ok, "R-BRANCH", cb.qualname, cb.loc(loops[0]) if loops else cb.loc(),
              "every child chain is closed with this node appended, reversed to start at this node, as a branch view of this tree",
              txt, "closing loop does not build one Branch(self, chain + node reversed) per child chain", stmt="close")
    last = cb.node.body[-1]
    ok = isinstance(last, ast.Return) and norm_src(last.value) == f"(branches, [{node_p}.id])"
    col.check(ok, "R-BRANCH", cb.qualname, cb.loc(last), "a closing node (tip, furcation) opens a new chain at itself",
              norm_src(last), "closing arm does not return (branches, [node.id])", stmt="open")
    # R-FLUSH at the outermost call
    st = repo.parent(call)
    while st is not None and not isinstance(st, ast.stmt):
        st = repo.parent(st)
    pending_name = None
    if isinstance(st, ast.Assign) and isinstance(st.targets[0], ast.Tuple) and len(st.targets[0].elts) == 2:
        t1 = st.targets[0].elts[1]
        pending_name = t1.id if isinstance(t1, ast.Name) else None
    elif isinstance(st, ast.Return) or (isinstance(st, ast.Assign) and isinstance(st.targets[0], ast.Name)):
        pending_name = "<whole result>"
    used = False
    if pending_name and pending_name not in ("_", "<whole result>"):
        after = [n for n in own_nodes(d) if isinstance(n, ast.Name) and n.id == pending_name
                 and isinstance(n.ctx, ast.Load) and n.lineno > st.lineno]
        used = bool(after)
    elif pending_name == "<whole result>":
        used = True
    root_arm = any(isinstance(x, ast.Call) and isinstance(x.func, ast.Attribute) and x.func.attr in ("is_root", "is_soma")
                   or (isinstance(x, ast.Compare) and "pid" in norm_src(x) and "-1" in norm_src(x))
                   for x in ast.walk(cb.node))
    if pending_name is None:
        col.unresolved("R-FLUSH", d.qualname, d.loc(st), "outermost call", "result of the traversal is not unpacked", stmt="flush")
    else:
        col.check(used or root_arm, "R-FLUSH", d.qualname, d.loc(st),
                  "open chain of the outermost call is closed", norm_src(st),
                  f"`{norm_src(st)}` discards the chain that is still open at the root: for a root with "
                  f"exactly one child the stem (and for an unbranched chain the only branch) is lost",
                  stmt="flush", facts={"pending_bound_to": pending_name}, definite=(pending_name == "_"))
        if used:
            # the chain is closed iff it holds at least one edge (two or more node ids)
            guards = [n for n in own_nodes(d) if isinstance(n, ast.If) and n.lineno > st.lineno
                      and pending_name in names_in(n.test)
                      and any(isinstance(x, ast.Call) and (dotted(x.func) or "").endswith("Branch") for x in ast.walk(n))]
            if guards:
                tab = tables.count_table(repo, d.module, guards[0].test)
                col.judge(tab is not None, tab is not None and tab[1:] == [False, True, True, True], "R-FLUSH", d.qualname, d.loc(guards[0]),
                          "the open chain is closed iff it has at least one edge (>= 2 node ids)",
                          f"{norm_src(guards[0].test)} -> {tab}",
                          f"`{norm_src(guards[0].test)}` closes the chain for lengths {[k for k, v in enumerate(tab or []) if v]}; a stem of "
                          f"a single edge (2 ids) must be closed, a lone root id (1) must not", stmt="flush-threshold", definite=True)
            # the consumer must build a branch from it
            mk = [x for x in own_nodes(d) if isinstance(x, ast.Call) and (dotted(x.func) or "").endswith("Branch")
                  and pending_name in names_in(x) and x.lineno > st.lineno]
            col.check(bool(mk), "R-BRANCH", d.qualname, d.loc(st), "the open chain is turned into a branch of this tree",
                      norm_src(mk[0]) if mk else "", "the open chain is read but no Branch is built from it", stmt="flush-branch")


def thresholds(ctx, col):
    repo = ctx.repo
    R = "R-THRESH"
    # Tree.get_furcations
    d = repo.get_def(f"{TREE}.get_furcations")
    call, cb = _callback_of(ctx, d, "leave")
    ifs = [n for n in own_nodes(cb) if isinstance(n, ast.If)]
    t = tables.count_table(repo, cb.module, ifs[0].test) if ifs else None
    col.judge(t is not None, t == FURC, R, d.qualname, cb.loc(ifs[0]) if ifs else cb.loc(),
              "Tree.get_furcations: furcation <=> two or more children", f"{norm_src(ifs[0].test) if ifs else ''} -> {t}",
              f"`{norm_src(ifs[0].test) if ifs else ''}` holds for child counts {[k for k, v in enumerate(t or []) if v]}, expected 2,3,4,...",
              stmt="get_furcations", definite=True)
    # Node.is_furcation
    d = repo.get_def("swcgeom.core.node.Node.is_furcation")
    rets = [n for n in own_nodes(d) if isinstance(n, ast.Return)]
    t = tables.count_table(repo, d.module, rets[0].value) if rets else None
    counts_children = rets and "self.attach.pid() == self.id" in norm_src(rets[0].value)
    col.judge(t is not None, t == FURC and bool(counts_children), R, d.qualname, d.loc(rets[0]) if rets else d.loc(),
              "Node.is_furcation: furcation <=> two or more children (nodes whose parent id is this id)",
              f"{norm_src(rets[0].value) if rets else ''} -> {t}",
              f"`{norm_src(rets[0].value) if rets else ''}` -> true for counts {[k for k, v in enumerate(t or []) if v]}",
              stmt="is_furcation", definite=True)
    # tips
    d = repo.get_def(f"{TREE}.get_tips")
    sd = [n for n in own_nodes(d) if isinstance(n, ast.Call) and (dotted(n.func) or "").endswith("setdiff1d")]
    ok = len(sd) == 1 and norm_src(sd[0].args[0]) == "self.id()" and norm_src(sd[0].args[1]) == "self.pid()"
    for x in sd:
        for arg in x.args[:2]:
            if isinstance(arg, ast.Subscript) and isinstance(arg.slice, ast.Slice):
                col.bad(R, d.qualname, d.loc(x), "Tree.get_tips: ids that are nobody's parent (all ids, all parent ids)",
                        f"`{norm_src(arg)}` leaves rows out of the set difference: e.g. the root can never be a tip, so a single-node "
                        f"tree (and every single-node subtree) has no tip", stmt="get_tips", definite=True)
    col.judge(len(sd) == 1, ok, R, d.qualname, d.loc(sd[0]) if sd else d.loc(), "Tree.get_tips: ids that are nobody's parent",
              norm_src(sd[0]) if sd else "", "tips are not ids \\ parent ids", stmt="get_tips")
    d = repo.get_def("swcgeom.core.node.Node.is_tip")
    rets = [n for n in own_nodes(d) if isinstance(n, ast.Return)]
    ok = len(rets) == 1 and norm_src(rets[0].value) == "self.id not in self.attach.pid()"
    col.judge(len(rets) == 1, ok, R, d.qualname, d.loc(), "Node.is_tip: this id is nobody's parent",
              norm_src(rets[0].value) if rets else "", "is_tip is not `id not in parent ids`", stmt="is_tip")
    # CutShortTipBranch / get_paths use count tests too
    d = repo.get_def("swcgeom.transforms.tree.CutShortTipBranch._leave")
    ifs = [n for n in d.node.body if isinstance(n, ast.If)]
    if len(ifs) >= 2:
        t0 = tables.count_table(repo, d.module, ifs[0].test)
        col.judge(t0 is not None, t0 == TIP, R, d.qualname, d.loc(ifs[0]), "CutShortTipBranch: tip <=> no children",
                  f"{norm_src(ifs[0].test)} -> {t0}", f"tip test true for counts {[k for k, v in enumerate(t0 or []) if v]}",
                  stmt="cut-tip", definite=True)
        first = ifs[1].test.values[0] if isinstance(ifs[1].test, ast.BoolOp) else ifs[1].test
        t1 = tables.count_table(repo, d.module, first)
        col.judge(t1 is not None, t1 == PASS, R, d.qualname, d.loc(ifs[1]), "CutShortTipBranch: elongation <=> exactly one child",
                  f"{norm_src(first)} -> {t1}", f"elongation test true for counts {[k for k, v in enumerate(t1 or []) if v]}",
                  stmt="cut-elong", definite=True)
    # Node.branch walks to furcation/root upwards and furcation/tip downwards
    d = repo.get_def(f"{TREE}.Node.branch")
    wh = [n for n in own_nodes(d) if isinstance(n, ast.While)]
    ok = len(wh) == 2 and norm_src(wh[0].test) == "not ns[-1].is_furcation() and (p := ns[-1].parent()) is not None" \
        and norm_src(wh[1].test) == "not (ns[-1].is_furcation() or ns[-1].is_tip())"
    col.judge(len(wh) == 2, ok, R, d.qualname, d.loc(), "Node.branch: up to the nearest furcation or the root, down to the nearest furcation or tip",
              "", f"loop conditions: {[norm_src(w.test) for w in wh]}", stmt="node-branch")
    node_branch_by_value(ctx, col, d)


def node_branch_by_value(ctx, col, d):
    """R-BRANCHVAL: Node.branch folded over every rooted tree of up to six nodes and every start node (sa/objfold.py: the walk is interpreted over abstract node handles
    whose parent / children / is_furcation / is_tip answers come from the witness topology).  Definition: the branch through v runs from the nearest ancestor-or-self of v
    that is a furcation or the root down to v itself when v is a furcation, else on to the nearest descendant-or-self along the single-child chain that is a furcation or
    a tip (so the branch of a furcation node is that node alone -- the convention the bifurcation torques of L-Measure are built on)."""
    from ..objfold import Budget, Built, NodeV, ObjEval, Unsupported, small_trees
    col.rule("R-BRANCHVAL", "Node.branch folded exactly over all 154 rooted trees of up to six nodes and every start node (873 walks): the ids handed to the Branch are the path from the "
             "nearest ancestor-or-self that is a furcation or the root to the nearest descendant-or-self (single-child chain) that is a furcation or a tip; the branch of a furcation "
             "node is the node alone -- whatever loops / breaks / reversals the walk is written with", floor=1, exhaustive=True)
    repo = ctx.repo
    cls = d.cls if hasattr(d, "cls") else None
    methods = {}
    try:
        node_cls = repo.get_class(f"{TREE}.Node")
        for m_ in node_cls.methods.values():
            if not m_.is_lambda and m_.name not in ("branch", "parent", "children", "is_furcation", "is_tip", "is_root", "is_bifurcation"):
                methods[m_.name] = m_.node
    except Exception:  # noqa: BLE001
        pass

    def want(pid, v):
        kids = {i: [j for j in range(len(pid)) if pid[j] == i] for i in range(len(pid))}
        top = v
        while len(kids[top]) < 2 and pid[top] != -1:
            top = pid[top]
        bottom = v
        while len(kids[bottom]) == 1:
            bottom = kids[bottom][0]
        path = [bottom]
        while path[-1] != top:
            path.append(pid[path[-1]])
        return path[::-1]
    bad = und = None
    n_w = 0
    for pid in small_trees(6):
        for v in range(len(pid)):
            try:
                got = ObjEval(pid, methods).run(d.node, NodeV(v))
            except (Unsupported, Budget) as x:
                und = f"{type(x).__name__}: {x} (tree {pid}, node {v})"
                break
            except Exception as x:  # noqa: BLE001
                und = f"{type(x).__name__}: {x}"
                break
            n_w += 1
            if not isinstance(got, Built):
                und = f"the walk does not return a Branch built from a list of ids (tree {pid}, node {v})"
                break
            if got.ids != want(pid, v):
                bad = (pid, v, got.ids, want(pid, v))
                break
        if bad or und:
            break
    what = "Node.branch returns the branch through the node (nearest furcation / root above, nearest furcation / tip below)"
    if bad is not None:
        pid, v, got, exp = bad
        col.bad("R-BRANCHVAL", d.qualname, d.loc(), what,
                f"in the tree with parents {pid}, node {v}.branch() is {got}; by the definition it is {exp}" +
                (" (the start node itself is a furcation: its branch is the node alone; L-Measure takes the previous bifurcation from `parent.branch().origin_id()[0]` and now skips "
                 "a parent that is itself a bifurcation)" if len(exp) == 1 else ""), stmt="branchval", definite=True)
    elif und is not None:
        col.unresolved("R-BRANCHVAL", d.qualname, d.loc(), what, f"cannot fold the walk: {und}", stmt="branchval")
    else:
        col.ok("R-BRANCHVAL", d.qualname, d.loc(), what, f"{n_w} walks folded", stmt="branchval")


def get_paths(ctx, col):
    repo = ctx.repo
    R = "R-PATH"
    d = repo.get_def(f"{TREE}.get_paths")
    call, en = _callback_of(ctx, d, "enter")
    _, lv = _callback_of(ctx, d, "leave")
    n_p, pre = en.params[:2]
    body = [norm_src(s) for s in en.node.body]
    ok = body[:1] == [f"path = [] if {pre} is None else {pre}.copy()"] and f"path.append({n_p}.id)" in body \
        and body[-1] == "return path"
    col.check(ok, R, en.qualname, en.loc(), "a node's path is a copy of its parent's path plus its own id (the root starts empty)",
              "; ".join(body), "enter callback aliases or does not extend the parent's path", stmt="assign")
    store = [s for s in body if s.endswith("= path") and "[" in s]
    ok = len(store) == 1 and store[0] == f"path_dic[{n_p}.id] = path"
    col.check(ok, R, en.qualname, en.loc(), "the path is recorded under the node's id", "; ".join(store),
              "path is not recorded as path_dic[n.id]", stmt="record")
    n2, ch = lv.params[:2]
    ifs = [s for s in lv.node.body if isinstance(s, ast.If)]
    t = tables.count_table(repo, lv.module, ifs[0].test) if ifs else None
    ok = t == TIP and ifs and [norm_src(s) for s in ifs[0].body] == [f"return [path_dic[{n2}.id]]"]
    col.judge(t is not None, bool(ok), R, lv.qualname, lv.loc(), "tips (no children) return exactly their own path",
              f"{norm_src(ifs[0].test) if ifs else ''} -> {t}", "leaf arm is not `no children -> [own path]`", stmt="tip-path")
    last = lv.node.body[-1]
    ok = isinstance(last, ast.Return) and norm_src(last.value) == f"list(itertools.chain(*{ch}))"
    col.check(ok, R, lv.qualname, lv.loc(last), "inner nodes return the concatenation of their children's path lists",
              norm_src(last), "inner arm does not concatenate the children's lists", stmt="inner")
    rets = [n for n in d.node.body if isinstance(n, ast.Return)]
    ok = len(rets) == 1 and norm_src(rets[0].value) == "[self.Path(self, idx) for idx in paths]"
    col.check(ok, R, d.qualname, d.loc(rets[0]) if rets else d.loc(), "one Path view of this tree per collected id list",
              "", "result is not [Path(self, ids) for ids in paths]", stmt="views")


def branch_tree(ctx, col):
    repo = ctx.repo
    R = "R-BTREE"
    d = repo.get_def("swcgeom.core.branch_tree.BranchTree.from_tree")
    src = {norm_src(n.targets[0]): n for n in own_nodes(d) if isinstance(n, ast.Assign)}
    a, b = src.get("sub_id"), src.get("sub_pid")
    ok = a is not None and "[0] + [br[-1].id for br in branches]" in norm_src(a.value)
    col.judge(a is not None, ok, R, d.qualname, d.loc(a) if a is not None else d.loc(), "kept nodes: the root and every branch's end node",
              norm_src(a.value) if a is not None else "", "sub_id is not [0] + [end of each branch]", stmt="sub-id")
    ok = b is not None and "[-1] + [br[0].id for br in branches]" in norm_src(b.value)
    col.judge(b is not None, ok, R, d.qualname, d.loc(b) if b is not None else d.loc(), "each end node's parent is its branch's start node; the root has none",
              norm_src(b.value) if b is not None else "", "sub_pid is not [-1] + [start of each branch]", stmt="sub-pid")
    br = src.get("branches")
    ok = br is not None and norm_src(br.value) == "tree.get_branches()"
    col.check(bool(ok), R, d.qualname, d.loc(br) if br is not None else d.loc(), "built from the tree's branches", "",
              "branches are not tree.get_branches()", stmt="branches")
    loops = [n for n in own_nodes(d) if isinstance(n, ast.For) and norm_src(n.iter) == "branches"]
    ok = False
    if len(loops) == 1:
        body = [norm_src(s) for s in loops[0].body]
        ok = body[0].startswith("idx = np.nonzero(id_map == br[0].id)[0][0]") and \
            "branch_tree.branches.setdefault(idx, [])" in body and "branch_tree.branches[idx].append(br.detach())" in body
    col.check(ok, R, d.qualname, d.loc(loops[0]) if loops else d.loc(), "each original branch (detached copy) is filed under the new id of its start node",
              "", "branches are not filed as branches[new id of br[0]].append(br.detach())", stmt="file")


def anchored(ctx, col):
    """Statements that carry the clauses, matched three-way under one renaming per function."""
    repo = ctx.repo
    d = repo.get_def(f"{TREE}.get_branches")
    col.text_group("R-BRANCH", d.qualname, d, [
        ("a pass-through node extends the open chain with its own id ...", ["child.append(node.id)"], "extend"),
        ("... and passes it up unclosed", ["return branches, child"], "pass-up"),
        ("a closing node closes every child chain: the chain plus this node, reversed to start here, as a branch view of this tree",
         ["sub_branches.append(Tree.Branch(self, np.array(child, dtype=_any)))"], "close"),
        ("... reversed", ["child.reverse()"], "reverse"),
        ("a closing node opens a new chain at itself", ["return branches, [node.id]"], "open"),
        ("the stem still open at the root is closed into a branch of this tree", ["branches.append(Tree.Branch(self, np.array(stem, dtype=_any)))"], "flush-branch"),
    ], fixed=("Tree",))
    g = repo.get_def(f"{TREE}.get_paths")
    col.text_group("R-PATH", g.qualname, g, [
        ("a node's path is a copy of its parent's path (the root starts empty)", ["path = [] if pre_path is None else pre_path.copy()"], "copy"),
        ("... plus its own id", ["path.append(n.id)"], "append"),
        ("the path is recorded under the node's id", ["path_dic[n.id] = path"], "record"),
        ("tips return exactly their own path", ["return [path_dic[n.id]]"], "tip-path"),
        ("inner nodes return the concatenation of their children's path lists", ["return list(itertools.chain(*children))", "return list(itertools.chain.from_iterable(children))"], "inner"),
    ])
    b = repo.get_def("swcgeom.core.branch_tree.BranchTree.from_tree")
    col.text_group("R-BTREE", b.qualname, b, [
        ("built from the tree's branches", ["branches = tree.get_branches()"], "branches"),
        ("kept nodes: the root and every branch's end node", ["sub_id = np.array([0] + [br[-1].id for br in branches], dtype=_any)"], "sub-id"),
        ("each end node's parent is its branch's start node; the root has none", ["sub_pid = np.array([-1] + [br[0].id for br in branches], dtype=_any)"], "sub-pid"),
        ("each original branch is filed under the new id of its start node", ["idx = np.nonzero(id_map == br[0].id)[0][0].item()"], "file-key"),
        ("... as a detached copy", ["branch_tree.branches[idx].append(br.detach())", "branch_tree.branches.setdefault(idx, []).append(br.detach())"], "file"),
    ], fixed=("tree", "cls"))
    n = repo.get_def("swcgeom.core.node.Node.is_tip")
    col.text_group("R-THRESH", n.qualname, n, [
        ("tip <=> this id is nobody's parent (over ALL rows: children need not be stored after their parent)",
         ["return self.id not in self.attach.pid()", "return not np.any(self.attach.pid() == self.id)", "return np.count_nonzero(self.attach.pid() == self.id) == 0"], "is_tip")])
    # a sliced parent column looks only at part of the rows
    for r in own_nodes(n):
        if isinstance(r, ast.Return):
            for x in ast.walk(r):
                if isinstance(x, ast.Subscript) and isinstance(x.slice, ast.Slice) and "pid" in norm_src(x.value):
                    col.bad("R-THRESH", n.qualname, n.loc(r), "tip <=> this id is nobody's parent (over ALL rows)",
                            f"`{norm_src(x)}` searches only part of the parent column: a child stored before its parent is not seen and the "
                            f"parent is reported as a tip", stmt="is_tip", definite=True)
    nb = repo.get_def(f"{TREE}.Node.branch")
    col.text_group("R-THRESH", nb.qualname, nb, [
        ("upwards to the nearest furcation or the root", ["while not ns[-1].is_furcation() and (p := ns[-1].parent()) is not None: ns.append(p)"], "up"),
        ("downwards to the nearest furcation or tip (the root is not an end by itself)", ["while not (ns[-1].is_furcation() or ns[-1].is_tip()): ns.append(ns[-1].children()[0])"], "down"),
    ])
    for w in [x for x in own_nodes(nb) if isinstance(x, ast.While)]:
        for c in ast.walk(w.test):
            if isinstance(c, ast.Call) and isinstance(c.func, ast.Attribute) and c.func.attr in ("is_root", "is_soma", "is_critical") \
                    and "children" in norm_src(w):
                col.bad("R-THRESH", nb.qualname, nb.loc(w), "downwards to the nearest furcation or tip (the root is not an end by itself)",
                        f"the downward walk stops at `{norm_src(c)}`: started from a root with a single child it stops at the root itself "
                        f"and the stem branch is cut to one node", stmt="down", definite=True)


def longest(ctx, col):
    """The longest path is one of the root-to-tip paths of the decomposition."""
    d = ctx.repo.get_def("swcgeom.transforms.tree.ToLongestPath.__call__")
    col.text_group("R-PATH", d.qualname, d, [
        ("candidates are the root-to-tip paths of the tree", ["paths = x.get_paths()"], "long:paths"),
        ("the longest by path length", ["idx = np.argmax([p.length() for p in paths])"], "long:argmax"),
        ("the result is that path", ["path = paths[idx]"], "long:pick"),
        ("detached on request", ["if self.detach: path = path.detach()"], "long:detach"),
        ("returned", ["return path"], "long:ret")], fixed=("x",))
