"""C09 -- node, path, branch and segment views are faithful windows onto their tree."""

from __future__ import annotations

import ast

from .. import own
from ..fold import Folder, Unfoldable
from ..interp import run as run_block
from ..model import AnalysisError, ClassInfo, dotted, norm_src, own_nodes
from ..util import names_in


def _each_owner(ctx, col):
    """R-EACHOWNER: a collection of views answers every element from that element's own owner -- never from the owner of its first element."""
    repo = ctx.repo
    col.rule("R-EACHOWNER", "a collection of segments reads every element through that element (`s.get_ndata(k) for s in self`): no accessor of the collection takes the owner of one "
             "element (`self[0].attach`) for all of them -- pooled segments of several branches, or detached segments, have different owners with local indices (zero expected)", floor=1)
    n = hits = 0
    for c in repo.classes.values():
        if c.module.name != "swcgeom.core.compartment" or not any((dotted(b) or "").startswith("list") or "list" in norm_src(b) for b in c.node.bases):
            continue
        for m in c.methods.values():
            if m.is_lambda:
                continue
            n += 1
            for a_ in own_nodes(m):
                if isinstance(a_, ast.Attribute) and a_.attr in ("attach", "ndata") and isinstance(a_.value, ast.Subscript) and isinstance(a_.value.value, ast.Name) and a_.value.value.id == "self" \
                        and isinstance(a_.value.slice, ast.Constant):
                    hits += 1
                    col.bad("R-EACHOWNER", m.qualname, m.loc(a_), "every element is read from its own owner",
                            f"`{norm_src(a_)}` takes the owner of one element for the whole collection: segments pooled from several branches (each attached to its own branch, with local "
                            f"indices) or detached segments are then all read from the first one's table -- wrong rows, or IndexError", stmt="eachowner", definite=True)
    if not hits:
        col.ok("R-EACHOWNER", "swcgeom.core.compartment", "swcgeom/core/compartment.py:1", "every element is read from its own owner", f"{n} methods of the collection classes scanned", stmt="eachowner")


def _copy_is_deep(ctx, col):
    """R-COPYDEEP: copy() of the table classes duplicates everything an object owns -- also what subclasses add (BranchTree.branches)."""
    repo = ctx.repo
    col.rule("R-COPYDEEP", "copy() of the SWC table classes is deep: it returns deepcopy(self), or, when it copies field by field from a shallow copy, it re-creates every mutable attribute "
             "that any subclass declares (BranchTree.branches: the detached origin branches) -- otherwise copy and original share that state", floor=1)
    cp = repo.get_def("swcgeom.core.swc.DictSWC.copy")
    rets = [r for r in own_nodes(cp) if isinstance(r, ast.Return) and r.value is not None]
    if any(isinstance(r.value, ast.Call) and (dotted(r.value.func) or "").rsplit(".", 1)[-1] == "deepcopy" and r.value.args and norm_src(r.value.args[0]) == "self" for r in rets) and len(rets) == 1:
        col.ok("R-COPYDEEP", cp.qualname, cp.loc(rets[0]), "a copy shares nothing mutable with its original", "return deepcopy(self)", stmt="copydeep")
        return
    shallow = [c for c in own_nodes(cp) if isinstance(c, ast.Call) and c.args and norm_src(c.args[0]) == "self" and ((dotted(c.func) or "").rsplit(".", 1)[-1] in ("copy", "shallow_copy", "_copy", "copy_")
               or (isinstance(c.func, ast.Attribute) and c.func.attr == "__new__"))]
    if not shallow:
        col.unresolved("R-COPYDEEP", cp.qualname, cp.loc(), "a copy shares nothing mutable with its original", "copy() is neither deepcopy(self) nor a shallow copy refilled field by field", stmt="copydeep")
        return
    rebound = {t.attr for a in own_nodes(cp) if isinstance(a, ast.Assign) for t in a.targets if isinstance(t, ast.Attribute) and isinstance(t.value, ast.Name) and t.value.id != "self"}
    declared = {}
    family = {"DictSWC"}
    for _ in range(4):
        for c in repo.classes.values():
            if any((dotted(b) or "").rsplit(".", 1)[-1] in family for b in c.node.bases):
                family.add(c.name)
    for c in repo.classes.values():
        if c.name not in family or c.name == "DictSWC":
            continue
        for st in c.node.body:
            if isinstance(st, ast.AnnAssign) and isinstance(st.target, ast.Name) and any(k in norm_src(st.annotation) for k in ("dict", "list", "Dict", "List", "set", "NDArray", "ndarray")):
                declared.setdefault(st.target.id, c.qualname)
        for m in c.methods.values():
            if m.is_lambda:
                continue
            for a in ast.walk(m.node):
                if isinstance(a, ast.Assign) and isinstance(a.value, (ast.Dict, ast.List, ast.DictComp, ast.ListComp)):
                    for t in a.targets:
                        if isinstance(t, ast.Attribute) and isinstance(t.value, ast.Name):
                            declared.setdefault(t.attr, c.qualname)
    missing = sorted(k for k in declared if k not in rebound and k not in ("names", "types", "source"))
    col.check(not missing, "R-COPYDEEP", cp.qualname, cp.loc(shallow[0]), "a copy shares nothing mutable with its original", f"re-created: {sorted(rebound)}",
              f"copy() starts from a shallow copy and re-creates only {sorted(rebound)}; the mutable attribute(s) {', '.join(f'{k} (of {declared[k]})' for k in missing)} stay shared between the copy and "
              f"the original: editing the origin branches of BranchTree.copy() edits the original's", stmt="copydeep", definite=True)


def run(ctx, col, tier):
    repo = ctx.repo
    from ..rules import namesfwd as _namesfwd
    _namesfwd.run(ctx, col, ('swcgeom.core.tree', 'swcgeom.core.path', 'swcgeom.core.branch', 'swcgeom.core.node', 'swcgeom.core.compartment', 'swcgeom.core.branch_tree',
                             'swcgeom.core.tree_utils', 'swcgeom.core.tree_utils_impl', 'swcgeom.core.swc'), floor=2)
    _namesfwd.run_allcols(ctx, col, ('swcgeom.core.path.Path', 'swcgeom.core.branch.Branch', 'swcgeom.core.compartment.Compartment', 'swcgeom.core.node.Node', 'swcgeom.core.tree.Tree.Node', 'swcgeom.core.tree.Tree.Path', 'swcgeom.core.tree.Tree.Branch'))
    col.guard(_copy_is_deep, ctx, col)
    col.guard(_each_owner, ctx, col)
    from ..rules import idxguard as _idxguard
    _idxguard.run(ctx, col, ('swcgeom.core.tree', 'swcgeom.core.path', 'swcgeom.core.branch', 'swcgeom.core.node', 'swcgeom.core.compartment'), floor=1)
    from ..rules import smalllints as _small_own
    col.rule("R-OWNLIST", "every tree object has its own comment list: the constructor binds a fresh list to self.comments on every path (the class-level default list is shared by "
             "all objects that do not); edits of one side's comments cannot leak into the other", floor=1)
    _small_own.own_container_on_every_path(ctx, col, "R-OWNLIST", "swcgeom.core.swc.DictSWC", "comments", "every DictSWC / Tree gets its own comment list")
    from ..rules import endpoints as _endpoints
    _endpoints.run(ctx, col, ('swcgeom.core.tree', 'swcgeom.core.path', 'swcgeom.core.branch', 'swcgeom.core.node', 'swcgeom.core.tree_utils', 'swcgeom.core.tree_utils_impl', 'swcgeom.core.swc_utils.base', 'swcgeom.core.swc_utils.subtree', 'swcgeom.core.swc_utils.normalizer', 'swcgeom.core.swc_utils.io'))
    col.rule("R-MEMO", "nothing computed from the tree is kept on the tree / node / path / branch object: outside construction and setters no "
             "method of these classes stores to self -- copies are deep and topology and coordinates are then edited in place (re-rooting, "
             "concatenation, node setters, transforms), so a kept decomposition or measure describes the tree before the edit; zero expected, "
             "positive examples are those of the transform-state lint", floor=1)
    from ..rules import stateless as _stateless
    _stateless.check_memo(ctx, col, "R-MEMO", ("swcgeom.core.tree", "swcgeom.core.path", "swcgeom.core.node", "swcgeom.core.branch",
                                               "swcgeom.core.compartment", "swcgeom.core.branch_tree", "swcgeom.core.swc", "swcgeom.core.segment"))
    col.rule("R-SPACE", "index-space typing of every view construction in the package: the index "
             "arguments of Node/Path/Branch/Compartment(attach, ...) are positions in `attach`; an "
             "`.id`/`.pid` read from a node of a view is an id of the view's owner, not a position "
             "in the view", floor=12)
    col.rule("R-ACCESS", "view accessors dereference the owner on every access: get_ndata / "
             "__getitem__ / __setitem__ are owner.get_ndata(key)[idx], identical in all sibling "
             "view classes; Path ids are local positions", floor=7, exhaustive=True, shape=True)
    col.rule("R-PURE", "ownership: the tree's column accessor returns the owner's storage (writes "
             "through a node handle reach the owner); detach() and copy() return storage disjoint "
             "from the original", floor=7)
    col.rule("R-IDXNORM", "integer index normalisation table (key<-n raise, -n<=key<0 -> key+n, "
             "0<=key<n -> key, key>=n raise) in every sibling; slices go through "
             "slice.indices(len)", floor=18, exhaustive=True)
    col.rule("R-SEG", "segments: a compartment's index pair is (parent, child); a tree's segments "
             "are (pid, id) of every non-root node; a branch's are its consecutive positions", floor=3, shape=True)
    col.not_decided += ["interleavings of reads/writes as histories (reduced to the aliasing facts)",
                        "adjacency-matrix values"]
    col.assumptions += ["well-formed tree: ids equal positions"]

    from ..rules import memo
    memo.run(ctx, col, ("swcgeom.core.branch", "swcgeom.core.path", "swcgeom.core.node", "swcgeom.core.compartment", "swcgeom.core.tree", "swcgeom.core.swc"))
    from ..rules import sortedness
    sortedness.run(ctx, col, ("swcgeom.core.tree", "swcgeom.core.node", "swcgeom.core.path", "swcgeom.core.branch", "swcgeom.core.compartment", "swcgeom.core.swc"))
    col.guard(navigation, ctx, col)
    col.guard(anchored, ctx, col)
    col.guard(spaces, ctx, col)
    col.guard(accessors, ctx, col)
    col.guard(purity, ctx, col)
    col.guard(idxnorm, ctx, col)
    col.guard(segments, ctx, col)


# --------------------------------------------------------------------- R-SPACE
def spaces(ctx, col):
    repo, ty, cg = ctx.repo, ctx.typer, ctx.cg
    node_c = repo.get_class("swcgeom.core.node.Node")
    path_c = repo.get_class("swcgeom.core.path.Path")
    swc_c = repo.get_class("swcgeom.core.swc.SWCLike")

    def is_view(c):
        return isinstance(c, ClassInfo) and c.is_subclass_of(path_c)

    def is_tree(c):
        return isinstance(c, ClassInfo) and c.is_subclass_of(swc_c) and not c.is_subclass_of(path_c)

    def handle_class(call, d):
        for callee, strength, kind, ext in cg.resolve_callable(call.func, d):
            if kind == "init" and callee is not None and callee.cls is not None:
                c = callee.cls
                # the constructed class: resolve the func expression itself
                t = ty.type_of(call.func, d)
                k = t[1] if isinstance(t, tuple) and t[0] == "class" else None
                k = k or c
                if k.is_subclass_of(node_c) or k.is_subclass_of(path_c):
                    return k
        t = ty.type_of(call.func, d)
        if isinstance(t, tuple) and t[0] == "class" and (t[1].is_subclass_of(node_c) or t[1].is_subclass_of(path_c)):
            return t[1]
        return None

    def node_attach_class(nt: ClassInfo):
        a = nt.lookup_annotation("attach")
        if a is None:
            return None
        owner, ann = a
        return ty.ann_type(ann, owner.module, None, nt, cls_ctx=owner, tv_ctx=nt)

    n_sites = 0
    for d in repo.defs.values():
        if not d.module.name.startswith("swcgeom.") or d.is_overload():
            continue
        for call in [n for n in own_nodes(d) if isinstance(n, ast.Call)]:
            k = handle_class(call, d)
            if k is None or not call.args:
                continue
            n_sites += 1
            attach = call.args[0]
            at = ty.type_of(attach, d)
            idx_args = call.args[1:]
            verdict, detail = "OK", []
            for ia in idx_args:
                for x in ast.walk(ia):
                    if isinstance(x, ast.Attribute) and x.attr in ("id", "pid") and isinstance(x.ctx, ast.Load) \
                            and not (isinstance(repo.parent(x), ast.Call) and repo.parent(x).func is x):
                        nt = ty.type_of(x.value, d)
                        if not (isinstance(nt, ClassInfo) and nt.is_subclass_of(node_c)):
                            continue
                        na = node_attach_class(nt)
                        if is_view(at) and is_view(na):
                            verdict = "VIOLATION"
                            detail.append(f"`{norm_src(x)}` is an id of the view's owner (node of a "
                                          f"{na.name}), used as a position inside the {at.name} view "
                                          f"`{norm_src(attach)}`")
                        elif is_view(at) and na is None:
                            verdict = "UNRESOLVED" if verdict == "OK" else verdict
                            detail.append(f"cannot type the owner of `{norm_src(x.value)}`")
                        elif is_tree(at) and is_view(na) and norm_src(attach) not in (
                                f"{norm_src(x.value)}.attach.attach",) and ".attach" not in norm_src(attach):
                            verdict = "VIOLATION"
                            detail.append(f"`{norm_src(x)}` is an id of the owner of a {na.name} view, "
                                          f"used to index `{norm_src(attach)}`")
            what = f"{k.name}({', '.join(norm_src(a)[:40] for a in call.args)})"
            stmt = f"{k.name}:{norm_src(call)[:100]}"
            if verdict == "OK":
                col.ok("R-SPACE", d.qualname, d.loc(call), what,
                       f"attach is {'a view' if is_view(at) else 'a tree' if is_tree(at) else 'untyped'}; "
                       f"index arguments are positions in it", stmt=stmt)
            elif verdict == "VIOLATION":
                col.bad("R-SPACE", d.qualname, d.loc(call), what, "; ".join(detail), stmt=stmt)
            else:
                col.unresolved("R-SPACE", d.qualname, d.loc(call), what, "; ".join(detail), stmt=stmt)
    col.analysed["view_constructions"] = n_sites


# --------------------------------------------------------------------- R-ACCESS
def accessors(ctx, col):
    repo = ctx.repo
    want = "self.attach.get_ndata(key)[self.idx]"
    for q in ("swcgeom.core.path.Path.get_ndata", "swcgeom.core.branch.Branch.get_ndata",
              "swcgeom.core.compartment.Compartment.get_ndata", "swcgeom.core.node.Node.__getitem__"):
        d = repo.get_def(q)
        rets = [n for n in own_nodes(d) if isinstance(n, ast.Return)]
        p = d.params[1] if len(d.params) > 1 else "key"
        got = norm_src(rets[0].value).replace(f"({p})", "(key)") if len(rets) == 1 else ""
        col.judge(len(rets) == 1, got == want, "R-ACCESS", q, d.loc(), "reads the owner's column at the view's index on every access",
                  got, f"accessor returns `{got}`, not owner.get_ndata(key)[idx]", stmt="read")
    d = repo.get_def("swcgeom.core.node.Node.__setitem__")
    body = [norm_src(s) for s in d.node.body]
    k, v = d.params[1:3]
    col.check(body == [f"self.attach.get_ndata({k})[self.idx] = {v}"], "R-ACCESS", d.qualname, d.loc(),
              "assignment through a node handle stores into the owner's column at the node's index",
              "; ".join(body), f"setter body is `{'; '.join(body)}`", stmt="write")
    # Path: local ids, origin ids
    for name, want in (("id", "np.arange(len(self.origin_id()), dtype=np.int32)"),
                       ("pid", "np.arange(-1, len(self.origin_id()) - 1, dtype=np.int32)"),
                       ("origin_id", "self.get_ndata(self.names.id)"),
                       ("origin_pid", "self.get_ndata(self.names.pid)")):
        d = repo.get_def(f"swcgeom.core.path.Path.{name}")
        rets = [n for n in own_nodes(d) if isinstance(n, ast.Return)]
        got = norm_src(rets[0].value) if len(rets) == 1 else ""
        col.judge(len(rets) == 1, got == want, "R-ACCESS", d.qualname, d.loc(),
                  f"Path.{name}() is " + ("the local position sequence" if "arange" in want else "the owner's ids of the path's nodes"),
                  got, f"returns `{got}`", stmt=name)
    # node properties: getter and setter use the same column name
    node = repo.get_class("swcgeom.core.node.Node")
    for f in ("id", "type", "x", "y", "z", "r", "pid"):
        g, s = node.methods.get(f), node.methods.get(f + ".setter")
        gs = norm_src(g.node.body[-1]) if g else ""
        ss = norm_src(s.node.body[-1]) if s else ""
        ok = gs == f"return self[self.names.{f}]" and ss == f"self[self.names.{f}] = {s.params[1] if s else ''}"
        col.check(ok, "R-ACCESS", f"{node.qualname}.{f}", g.loc() if g else "", f"property {f} reads and writes column {f}",
                  "", f"getter `{gs}` / setter `{ss}` do not address column {f}", stmt=f"prop:{f}")
    # SWCLike column accessors
    swc = repo.get_class("swcgeom.core.swc.SWCLike")
    for f in ("id", "type", "x", "y", "z", "r", "pid"):
        m = swc.methods.get(f)
        got = norm_src(m.node.body[-1]) if m else ""
        col.check(got == f"return self.get_ndata(self.names.{f})", "R-ACCESS", f"{swc.qualname}.{f}", m.loc() if m else "",
                  f"{f}() returns column {f}", "", f"`{got}`", stmt=f"col:{f}")


# --------------------------------------------------------------------- R-PURE
def purity(ctx, col):
    repo = ctx.repo
    I = own.Interp(ctx)
    # accessor returns the owner's storage
    d = repo.get_def("swcgeom.core.swc.DictSWC.get_ndata")
    t = I.param_tree(d.cls, "P:self")
    r = I.call_def(d, [t, own.Opaque("key", "str")], {})
    col.check(isinstance(r, own.Arr) and r.owners == frozenset(["P:self"]), "R-PURE", d.qualname, d.loc(),
              "get_ndata returns the tree's own column (not a copy)", "owner storage",
              "the column accessor returns a copy: assignments through node handles would be lost", stmt="accessor")
    # ... on every call: the returned expression is the stored column itself, not the result of a call that may hand out a temporary
    rets = [n for n in own_nodes(d) if isinstance(n, ast.Return) and n.value is not None]
    MAYCOPY = ("ascontiguousarray", "asfortranarray", "array", "copy", "astype", "require", "asarray", "asanyarray", "squeeze", "ravel", "flatten", "take", "compress")
    for rt in rets:
        calls = [c for c in ast.walk(rt.value) if isinstance(c, ast.Call)]
        wrap = [c for c in calls if (dotted(c.func) or "").rsplit(".", 1)[-1] in MAYCOPY or (isinstance(c.func, ast.Attribute) and c.func.attr in MAYCOPY)]
        if wrap:
            col.bad("R-PURE", d.qualname, d.loc(rt), "get_ndata hands out the stored column itself on every call", 
                    f"`{norm_src(rt)[:80]}` passes the stored column through `{norm_src(wrap[0].func)}`, which returns a NEW array whenever the stored one does not already have the "
                    f"requested layout / type (a strided column such as xyzr[:, 0], another dtype): a write through a node handle then lands in a temporary and is lost",
                    stmt="accessor-plain", definite=True)
        else:
            col.ok("R-PURE", d.qualname, d.loc(rt), "get_ndata hands out the stored column itself on every call", norm_src(rt)[:60], stmt="accessor-plain")
    # write through a tree node reaches the owner
    tn = repo.get_class("swcgeom.core.tree.Tree.Node")
    I = own.Interp(ctx)
    tree = I.param_tree(repo.get_class("swcgeom.core.tree.Tree"), "P:tree")
    nodev = own.Obj(tn, {"attach": tree, "idx": own.Opaque("i", "int"), "names": own.Opaque()}, frozenset())
    I.call_def(repo.get_def("swcgeom.core.node.Node.__setitem__"), [nodev, own.Opaque("k", "str"), own.Opaque("v")], {})
    col.check(any(e.kind == "write" and "P:tree" in e.owners for e in I.effects), "R-PURE", tn.qualname,
              f"{tn.module.relpath}:{tn.node.lineno}", "assigning through a tree node writes the tree's column",
              "", "the store does not reach the owner's storage", stmt="write-through")
    # detach / copy are fresh
    for q in ("swcgeom.core.node.Node.detach", "swcgeom.core.path.Path.detach", "swcgeom.core.branch.Branch.detach",
              "swcgeom.core.compartment.Compartment.detach", "swcgeom.core.swc.DictSWC.copy"):
        d = repo.get_def(q)
        I = own.Interp(ctx)
        selfv = I.param_tree(d.cls, "P:self") if q.endswith("copy") else I.param_view(d.cls, "P:self")
        r = I.call_def(d, [selfv], {})
        shared = own.storage_owners(r)
        ok = isinstance(r, own.Obj) and not shared and not I.effects
        col.check(ok, "R-PURE", q, d.loc(), "result is independent of the original",
                  "fresh object and fresh columns",
                  (f"writes the original at {I.effects[0].where()}" if I.effects else
                   f"result shares storage with the original ({sorted(shared)})" if shared else
                   f"result abstracted to {type(r).__name__}"), stmt="fresh")


# --------------------------------------------------------------------- R-IDXNORM
ORACLE = {-7: "raise", -6: "raise", -5: 0, -1: 4, 0: 0, 4: 4, 5: "raise", 6: "raise"}  # n = 5


def _int_arm(d):
    """Statements handling an integer key."""
    for s in d.node.body:
        if isinstance(s, ast.If) and "int" in norm_src(s.test) and "isinstance" in norm_src(s.test):
            return s.body
    return d.node.body


def _eval_through_helper(repo, d, v, f):
    """value of the normalised key; a call of a package-level helper `h(key, len(self))` is followed into the helper (its body is folded with
    the same constants: tests, raise, return), so that moving the normalisation into a shared function leaves the table decidable"""
    if isinstance(v, ast.Call) and isinstance(v.func, (ast.Name, ast.Attribute)) and not v.keywords:
        target = repo.resolve_expr(v.func, d.module, d) if isinstance(v.func, ast.Attribute) else repo.lookup_name(v.func.id, d.module, d)
        from ..model import Def as _Def
        if target is None and isinstance(v.func, ast.Attribute) and isinstance(v.func.value, ast.Name) and v.func.value.id in ("self", "cls") and d.cls is not None:
            target = d.cls.lookup_method(v.func.attr)  # a shared helper kept on a base class: self._normalize_index(key, len(self))
        if isinstance(target, _Def) and not target.is_lambda:
            params = [p_ for p_ in target.params if p_ not in ("self", "cls")]
            if len(params) == len(v.args):
                env = {}
                for p_, a_ in zip(params, v.args):
                    env[p_] = 5 if norm_src(a_) == "len(self)" else f.eval(a_)
                body = []
                for s_ in target.node.body:
                    if isinstance(s_, ast.Expr) and isinstance(s_.value, ast.Constant):
                        continue
                    if isinstance(s_, ast.Assign) and len(s_.targets) == 1 and isinstance(s_.targets[0], ast.Name) and norm_src(s_.value) == "len(self)":
                        env[s_.targets[0].id] = 5  # the helper measures the view itself
                        continue
                    body.append(s_)
                out = run_block(body, Folder(repo, target.module, target, env), lambda c: False)
                if out.raised:
                    return "raise"
                if out.returned:
                    return out.value
                raise Unfoldable(v, "helper does not return")
    return f.eval(v)


def idxnorm(ctx, col, only=None):
    repo = ctx.repo
    sites = [("swcgeom.core.tree.Tree.__getitem__", "key"), ("swcgeom.core.path.Path.__getitem__", "key"),
             ("swcgeom.core.population._get_idx", "key")]
    if only is not None:
        sites = [x for x in sites if x[0] in only]
    for q, kname in sites:
        d = repo.get_def(q)
        arm = [s for s in _int_arm(d) if not (isinstance(s, ast.Expr) and isinstance(s.value, ast.Constant))]
        for key, want in ORACLE.items():
            env = {kname: key, "length": 5}
            f = Folder(repo, d.module, d, env)
            body = []
            for s in arm:
                if isinstance(s, ast.Assign) and norm_src(s.value) in ("len(self)",):
                    f.env[norm_src(s.targets[0])] = 5
                    continue
                body.append(s)
            got = None
            try:
                last = body[-1]
                out = run_block(body[:-1], f, lambda c: False)
                if out.raised:
                    got = "raise"
                elif isinstance(last, ast.Return):
                    v = last.value
                    if isinstance(v, ast.Call) and len(v.args) == 1:
                        v = v.args[0]
                    got = _eval_through_helper(repo, d, v, f)
                else:
                    got = "?"
            except Unfoldable as ex:
                col.unresolved("R-IDXNORM", q, d.loc(), f"key={key}, n=5", str(ex), stmt=f"row:{key}")
                continue
            if got == "?":
                col.unresolved("R-IDXNORM", q, d.loc(), f"key={key}, n=5", "the integer arm does not end in a return the table can evaluate", stmt=f"row:{key}")
                continue
            col.check(got == want, "R-IDXNORM", q, d.loc(), f"key={key}, n=5", f"-> {got}",
                      f"-> {got}, expected {want}", stmt=f"row:{key}")
    if only is not None:
        return
    # LazyLoadingTrees / ChainTrees route through _get_idx
    for q in ("swcgeom.core.population.LazyLoadingTrees.__getitem__", "swcgeom.core.population.ChainTrees.__getitem__"):
        d = repo.get_def(q)
        calls = [n for n in own_nodes(d) if isinstance(n, ast.Call) and dotted(n.func) == "_get_idx"]
        ok = len(calls) == 1 and norm_src(calls[0]) == "_get_idx(key, len(self))"
        col.shape(ok, "R-IDXNORM", q, d.loc(), "index normalised against the container's length", "",
                  "key is not normalised with _get_idx(key, len(self))", stmt="route")
    # slices
    for q in ("swcgeom.core.tree.Tree.__getitem__", "swcgeom.core.path.Path.__getitem__"):
        d = repo.get_def(q)
        ok = any(isinstance(s, ast.If) and "slice" in norm_src(s.test)
                 and "[self.node(i) for i in range(*key.indices(len(self)))]" in norm_src(s) for s in d.node.body)
        col.shape(ok, "R-IDXNORM", q, d.loc(), "slices resolve through slice.indices(len(self)) to node handles in order",
                  "", "slice arm is not [self.node(i) for i in range(*key.indices(len(self)))]", stmt="slice")
    d = repo.get_def("swcgeom.core.population.Population.__getitem__")
    ok = "NestTrees(self.trees, range(*key.indices(len(self))))" in norm_src(d.node)
    col.shape(ok, "R-IDXNORM", d.qualname, d.loc(), "population slices resolve through slice.indices(len(self))", "",
              "slice arm is not NestTrees(self.trees, range(*key.indices(len(self))))", stmt="slice")


# --------------------------------------------------------------------- R-SEG
def segments(ctx, col):
    repo = ctx.repo
    d = repo.get_def("swcgeom.core.compartment.Compartment.__init__")
    calls = [n for n in own_nodes(d) if isinstance(n, ast.Call) and isinstance(n.func, ast.Attribute) and n.func.attr == "__init__"]
    p1, p2 = d.params[2:4]
    ok = len(calls) == 1 and norm_src(calls[0].args[0]) == d.params[1] and norm_src(calls[0].args[1]) == f"np.array([{p1}, {p2}])" \
        and (p1, p2) == ("pid", "idx")
    col.check(ok, "R-SEG", d.qualname, d.loc(), "a compartment's two positions are (parent, child) in that order",
              norm_src(calls[0]) if calls else "", "index pair is not [parent, child]", stmt="pair")
    d = repo.get_def("swcgeom.core.tree.Tree.get_compartments")
    want = "Compartments((self.Compartment(self, n.pid, n.id) for n in self[1:]))"
    got = norm_src(d.node.body[-1].value) if isinstance(d.node.body[-1], ast.Return) else ""
    col.check(got == want, "R-SEG", d.qualname, d.loc(), "tree segments: (parent id, id) of every node but the root",
              got, f"`{got}`", stmt="tree-segments")
    d = repo.get_def("swcgeom.core.branch.Branch.get_compartments")
    ret = d.node.body[-1]
    gens = [n for n in ast.walk(ret) if isinstance(n, ast.GeneratorExp)]
    ok = False
    if len(gens) == 1:
        g = gens[0]
        c = g.elt
        v = norm_src(g.generators[0].target)
        it = norm_src(g.generators[0].iter)
        if isinstance(c, ast.Call) and len(c.args) == 3 and norm_src(c.args[0]) == "self":
            a, b = norm_src(c.args[1]), norm_src(c.args[2])
            ok = (it == "range(1, len(self))" and (a, b) == (f"{v} - 1", v)) or \
                 (it == "range(len(self) - 1)" and (a, b) == (v, f"{v} + 1")) or \
                 (it == "self[1:]" and (a, b) == (f"{v}.idx - 1", f"{v}.idx"))
    col.judge(len(gens) == 1, ok, "R-SEG", d.qualname, d.loc(), "branch segments: consecutive local positions (i-1, i)",
              norm_src(ret)[:100], f"`{norm_src(ret)[:100]}` does not pair consecutive positions of the branch",
              stmt="branch-segments")


def anchored(ctx, col):
    """Statements that carry the clauses, matched three-way under one renaming per function."""
    repo = ctx.repo
    n = repo.get_def("swcgeom.core.node.Node.__getitem__")
    col.text_group("R-ACCESS", n.qualname, n, [("a node reads the owner's column at its own index, on every access",
                                                 ["return self.attach.get_ndata(key)[self.idx]"], "node-get")])
    n = repo.get_def("swcgeom.core.node.Node.__setitem__")
    col.text_group("R-ACCESS", n.qualname, n, [("assignment through a node handle stores into the owner's column at the node's index",
                                                 ["self.attach.get_ndata(k)[self.idx] = v"], "node-set")])
    for q in ("swcgeom.core.path.Path.get_ndata",):
        d = repo.get_def(q)
        col.text_group("R-ACCESS", d.qualname, d, [("a view reads the owner's column at the view's indices, in the view's order",
                                                     ["return self.attach.get_ndata(key)[self.idx]"], "view-get")])
    c = repo.get_def("swcgeom.core.compartment.Compartment.__init__")
    col.text_group("R-SEG", c.qualname, c, [("a compartment's two positions are (parent, child) in that order",
                                             ["super().__init__(attach, np.array([pid, idx]))"], "pair")], fixed=("attach", "pid", "idx"))
    t = repo.get_def("swcgeom.core.tree.Tree.get_compartments")
    col.text_group("R-SEG", t.qualname, t, [("tree segments: (parent id, id) of every node but the root",
                                             ["return Compartments((self.Compartment(self, n.pid, n.id) for n in self[1:]))"], "tree-seg")], fixed=("Compartments",))
    b = repo.get_def("swcgeom.core.branch.Branch.get_compartments")
    col.text_group("R-SEG", b.qualname, b, [("branch segments: consecutive positions (i-1, i) of the branch itself",
                                             ["return Compartments((self.Compartment(self, i - 1, i) for i in range(1, len(self))))",
                                              "return Compartments((self.Compartment(self, i, i + 1) for i in range(len(self) - 1)))"], "branch-seg")], fixed=("Compartments",))
    # a branch's segments are pairs of ITS consecutive nodes: pairing a node with its parent in the owner is
    # another relation (it differs for any branch that is not a parent->child run of the owner)
    for x in own_nodes(b):
        if isinstance(x, ast.Call) and isinstance(x.func, ast.Attribute) and x.func.attr == "Compartment" and len(x.args) == 3:
            if norm_src(x.args[0]).endswith(".attach") and ".pid" in norm_src(x.args[1]):
                col.bad("R-SEG", b.qualname, b.loc(x), "branch segments: consecutive positions (i-1, i) of the branch itself",
                        f"`{norm_src(x)}` pairs each node with its parent in the OWNER, not with its predecessor in the branch", stmt="branch-seg", definite=True)
    for q in ("swcgeom.core.tree.Tree.__getitem__", "swcgeom.core.path.Path.__getitem__"):
        g = repo.get_def(q)
        col.text_group("R-IDXNORM", g.qualname, g, [
            ("slices resolve through slice.indices(len(self)): start, stop AND step", ["return [self.node(i) for i in range(*key.indices(len(self)))]"], "slice"),
            ("out-of-range keys raise", ["if key < -length or key >= length: raise IndexError(_any)"], "range"),
            ("negative keys count from the end", ["if key < 0: key += length", "key = key + length if key < 0 else key"], "wrap"),
        ], fixed=("key",))
        # range(start, stop) built from key.indices(...) without the step
        for x in own_nodes(g):
            if isinstance(x, ast.Call) and isinstance(x.func, ast.Name) and x.func.id == "range" and len(x.args) == 2 and not any(isinstance(a, ast.Starred) for a in x.args):
                unp = [a for a in own_nodes(g) if isinstance(a, ast.Assign) and isinstance(a.value, ast.Call) and isinstance(a.value.func, ast.Attribute)
                       and a.value.func.attr == "indices" and isinstance(a.targets[0], ast.Tuple) and len(a.targets[0].elts) == 3]
                if unp and {norm_src(x.args[0]), norm_src(x.args[1])} <= {norm_src(e) for e in unp[0].targets[0].elts}:
                    col.bad("R-IDXNORM", g.qualname, g.loc(x), "slices resolve through slice.indices(len(self)): start, stop AND step",
                            f"`{norm_src(x)}` drops the step of `{norm_src(unp[0])}`: `t[::2]` returns every node and `t[::-1]` nothing", stmt="slice", definite=True)


def navigation(ctx, col):
    """A node handle's parent / children are found in the owner by id."""
    repo = ctx.repo
    ch = repo.get_def("swcgeom.core.tree.Tree.Node.children")
    col.text_group("R-ACCESS", ch.qualname, ch, [
        ("children = the owner's ids of the rows whose parent id is this node's id (a scan by value: the parent column is not sorted)",
         ["children = self.attach.id()[self.attach.pid() == self.id]"], "nav:children"),
        ("each child is a handle on the same owner", ["return [Tree.Node(self.attach, idx) for idx in children]"], "nav:wrap")], fixed=("Tree",))
    pa = repo.get_def("swcgeom.core.tree.Tree.Node.parent")
    col.text_group("R-ACCESS", pa.qualname, pa, [
        ("the parent is the handle of this node's parent id on the same owner; the root has none",
         ["return Tree.Node(self.attach, self.pid) if self.pid != -1 else None"], "nav:parent")], fixed=("Tree",))
