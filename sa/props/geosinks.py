"""Observables of the morphometric layer with their required geometric type (E5 sinks).

A value of degree k scales with s**k under uniform scaling; kind S/N = independent of the
pose of the neuron.  The table is the property's own list (lengths 1, volumes 3, counts,
angles and ratios 0); width/height/depth are axis-aligned by definition and not listed.
"""

from __future__ import annotations

import ast

from ..geo import Bad, Geo, Frame, L, N, Obj, S, Seq, TOP, kind, show, elem

A = "swcgeom.analysis"
LM = f"{A}.lmeasure.LMeasure"
FE = f"{A}.features"

SINKS = {
    "swcgeom.core.tree.Tree.length": S(1),
    "swcgeom.core.path.Path.length": S(1),
    "swcgeom.core.path.Path.straight_line_distance": S(1),
    "swcgeom.core.path.Path.tortuosity": S(0),
    "swcgeom.core.node.Node.distance": S(1),
    f"{FE}.NodeFeatures.get_count": N,
    f"{FE}.NodeFeatures.get_radial_distance": S(1),
    f"{FE}.NodeFeatures.get_branch_order": N,
    f"{FE}._SubsetNodesFeatures.get_count": N,
    f"{FE}._SubsetNodesFeatures.get_radial_distance": S(1),
    f"{FE}.PathFeatures.get_count": N,
    f"{FE}.PathFeatures.get_length": S(1),
    f"{FE}.PathFeatures.get_tortuosity": S(0),
    f"{FE}.BranchFeatures.get_count": N,
    f"{FE}.BranchFeatures.get_length": S(1),
    f"{FE}.BranchFeatures.get_tortuosity": S(0),
    f"{FE}.BranchFeatures.get_angle": S(0),
    f"{FE}.BranchFeatures.calc_angle": S(0),
    f"{LM}.n_stems": N, f"{LM}.n_bifs": N, f"{LM}.n_branch": N, f"{LM}.n_tips": N,
    f"{LM}.branch_pathlength": S(1),
    f"{LM}.contraction": S(0),
    f"{LM}.fragmentation": N,
    f"{LM}.partition_asymmetry": S(0),
    f"{LM}.bif_ampl_local": S(0), f"{LM}.bif_ampl_remote": S(0),
    f"{LM}.bif_tilt_local": S(0), f"{LM}.bif_tilt_remote": S(0),
    f"{LM}.bif_torque_local": S(0), f"{LM}.bif_torque_remote": S(0),
    f"{LM}.euc_distance": S(1), f"{LM}.path_distance": S(1),
    f"{LM}.branch_order": N, f"{LM}.terminal_degree": N,
    f"{LM}.helix": S(0),
    f"{LM}.length": S(1), f"{LM}.diameter": S(1),
    f"{LM}.surface": S(2), f"{LM}.section_area": S(2), f"{LM}.volume": S(3), f"{LM}.soma_surface": S(2),
    f"{LM}.taper_1": S(0), f"{LM}.taper_2": S(0),
    f"{A}.sholl.Sholl.get": N, f"{A}.sholl.Sholl.intersect": N,
    f"{A}.volume.get_volume": S(3),
    f"{A}.volume._get_volume_frustum_cone": S(3),
    "swcgeom.utils.volumetric_object.VolSphere.calc_volume": S(3),
    "swcgeom.utils.volumetric_object.VolSphere.calc_volume_spherical_cap": S(3),
    "swcgeom.utils.volumetric_object.VolFrustumCone.calc_volume": S(3),
    "swcgeom.utils.volumetric_object.VolFrustumCone.height": S(1),
    "swcgeom.utils.volumetric_object.VolSphere2Intersection.calc_intersect_volume": S(3),
    "swcgeom.utils.volumetric_object.VolSphereFrustumConeIntersection.calc_concentric_intersect_volume": S(3),
}

ASSUMED = {  # sampled, not analysed: taken at its declared type
    f"{A}.volume._get_volume_frustum_cone_mc_only": S(3),
}

SELF_ROLE = {
    "swcgeom.utils.volumetric_object.VolSphere": Obj("Sphere"),
    "swcgeom.utils.volumetric_object.VolFrustumCone": Obj("Cone"),
    "swcgeom.core.tree.Tree": Obj("Tree"),
    "swcgeom.core.path.Path": Obj("Path"),
    "swcgeom.core.node.Node": Obj("Node"),
}

PARAM_TYPES = {  # scalar parameters of the closed forms (annotated `float`)
    "radius": S(1), "r": S(1), "h": S(1), "r1": S(1), "r2": S(1), "height": S(1),
}


def accept(req, got):
    """'ok' | 'bad' | 'unresolved' with a reason."""
    g = got
    while kind(g) == "Seq":
        g = g[1] if g[1] is not None else L
    if kind(g) == "Tup":
        res = [accept(req, x) for x in g[1]]
        for r in res:
            if r[0] != "ok":
                return r
        return ("ok", "")
    k = kind(g)
    if k == "Bad":
        return ("bad", g[1])
    if k in ("Top", "None", "Lambda", "Const", "Obj", "Rec"):
        return ("unresolved", f"result type {show(g)} is outside the abstract domain")
    if k in ("P", "V", "C", "E"):
        names = {"P": "an absolute position", "V": "a vector (orientation dependent)", "C": "a single coordinate / component (orientation dependent)",
                 "E": "an element-wise product of vectors (orientation dependent)"}
        return ("bad", f"the observable is {names[k]}, not a pose-independent scalar")
    if kind(req) == "N":
        if k in ("N", "L") or (k == "S" and g[1] == 0):
            return ("ok", "")
        return ("bad", f"a count is expected, got {show(g)}")
    if k == "L":
        return ("ok", "")
    if k == "N":
        return ("ok", "") if req[1] == 0 else ("bad", f"a count where a quantity of degree {req[1]} is expected")
    if k == "S":
        return ("ok", "") if g[1] == req[1] else ("bad", f"scales with s^{g[1]} under uniform scaling, the definition requires s^{req[1]}")
    return ("unresolved", show(g))


def check_sinks(ctx, col, rule, only=None, exclude=()):
    repo = ctx.repo
    geo = Geo(ctx, {**SINKS, **ASSUMED})
    geo.arg_types = {**PARAM_TYPES, "d": S(1)}
    # constructor-established fields
    geo.fields["swcgeom.analysis.features.NodeFeatures"] = {"self.tree": Obj("Tree")}
    geo.fields["swcgeom.analysis.features.PathFeatures"] = {"self.tree": Obj("Tree")}
    geo.fields["swcgeom.analysis.features.BranchFeatures"] = {"self.tree": Obj("Tree")}
    results = {}
    for q, req in SINKS.items():
        if only is not None and not only(q):
            continue
        if q in exclude:
            continue
        d = repo.get_def(q)
        env = {}
        params = list(d.params)
        self_t = None
        if params and params[0] in ("self", "cls") and not d.is_staticmethod():
            cq = d.cls.qualname if d.cls is not None else ""
            self_t = TOP
            for c in (d.cls.mro() if d.cls is not None else []):
                if c.qualname in SELF_ROLE:
                    self_t = SELF_ROLE[c.qualname]
                    break
            if q.startswith(f"{A}.sholl.Sholl"):
                self_t = Obj("Sholl")
            env[params[0]] = self_t
            params = params[1:]
        for p in params:
            t = geo.role_of_annotation(d.param_annotation(p))
            if t == TOP and p in PARAM_TYPES and norm_ann(d, p) in ("float", ""):
                t = PARAM_TYPES[p]
            if t == TOP:
                t = L if d.param_annotation(p) is None or norm_ann(d, p) in ("float", "int") else TOP
            env[p] = t
        if q.endswith("_get_volume_frustum_cone"):
            env["accuracy"] = N
        fr = Frame(geo, d, env)
        # Sholl: fields established by __init__
        if q.startswith(f"{A}.sholl.Sholl"):
            fr.env["self.rs"] = S(1)
            fr.env["self.rmax"] = S(1)
            fr.env["self.step"] = S(1)
        n0 = len(geo.notes)
        got = fr.run()
        verdict, why = accept(req, got)
        # definite misuse met anywhere while evaluating this observable (also in helpers)
        bads = geo.notes[n0:]
        results[q] = (d, req, got, verdict, why, bads)
    return geo, results


def norm_ann(d, p):
    a = d.param_annotation(p)
    return ast.unparse(a) if a is not None else ""


# Sites where positions are compared with a relative tolerance and the outcome was read and found harmless; one line of reason each.
# The exemption holds only while the comparison stays conjoined (`and`) with the comparison of the radii.
TRIAGED_RTOL = {
    "swcgeom.utils.volumetric_object.VolSphereFrustumConeIntersection._get_volume":
        "decides `concentric` together with equality of the radii; the callers only pass concentric pairs, so a wrongly true test selects the "
        "closed form that is right for them anyway",
    "swcgeom.utils.volumetric_object.VolSphereFrustumConeIntersection.calc_concentric_intersect_volume":
        "picks which end of the frustum the sphere sits on, together with equality of the radii: when both ends pass (far from the origin, "
        "radii equal within rtol) either choice gives the same concentric volume up to rounding",
}


TRIAGED_RTOL_WHY = ("in the volumetric primitives a centre comparison that is conjoined with the comparison of the radii only decides which end of a "
                    "frustum a sphere that is known to sit on one of them belongs to; it is never the sole ground of a decision")


def _triaged(col_repo, dd, node, t):
    if "relative tolerance" not in t[1] or dd.module.name != "swcgeom.utils.volumetric_object":
        return False
    par = col_repo.parent(node)
    if not (isinstance(par, ast.BoolOp) and isinstance(par.op, ast.And)):
        return False
    others = [v for v in par.values if v is not node]
    return any(isinstance(v, ast.Call) and ast.unparse(v.func).endswith(("allclose", "isclose")) for v in others)


def report(col, rule, results, what_prefix="", repo=None):
    for q, (d, req, got, verdict, why, bads) in results.items():
        what = f"{q.split('.', 2)[-1]}: {show(req)}"
        facts = {"required": show(req), "inferred": show(got)}
        if repo is not None:
            kept = []
            for b in bads:
                if _triaged(repo, *b):
                    col.info(rule, b[0].qualname, b[0].loc(b[1]), "position comparison with a relative tolerance (triaged)",
                             f"`{ast.unparse(b[1])[:70]}`: {TRIAGED_RTOL.get(b[0].qualname, TRIAGED_RTOL_WHY)}", stmt="triaged-rtol")
                else:
                    kept.append(b)
            bads = kept
        if bads and verdict != "bad":
            dd, node, t = bads[0]
            verdict, why = "bad", f"{t[1]} at {dd.loc(node)} (`{ast.unparse(node)[:70]}`)"
        if verdict == "ok":
            col.ok(rule, q, d.loc(), what, f"inferred {show(got)}", stmt="sink", facts=facts)
        elif verdict == "bad":
            col.bad(rule, q, d.loc(), what, why, stmt="sink", facts=facts)
        else:
            col.unresolved(rule, q, d.loc(), what, why, stmt="sink", facts=facts)
