"""C15 -- Neurolucida ASC conversion is faithful to the document."""

from __future__ import annotations

import ast

from ..model import AnalysisError, dotted, norm_src, own_nodes
from ..parsebal import EOF, UNB, Engine, Unsupported
from ..rules import exc as excrule
from ..util import names_in
from .c04 import recursion_free

MOD = "swcgeom.transforms.neurolucida_asc"
CONV = f"{MOD}.NeurolucidaAscToSwc"
PARSER = f"{MOD}.Parser"
LEXER = f"{MOD}.Lexer"


def run(ctx, col, tier):
    col.rule("R-BAL", "bracket-balance typestate of the parser (abstract interpretation of every "
             "Parser method over bracket depth, explicit-stack height, look-ahead token type; "
             "loops to fixpoint, recursion by summary iteration): every parse method has exactly "
             "one bracket effect, the document parser returns only at depth 0, a split consumes "
             "its own closing bracket, end of input inside a construct ends in an error", floor=7,
             exhaustive=True)
    col.rule("R-CG", "no strong call-graph cycle on the conversion path: neither branch length "
             "nor nesting depth grows the interpreter stack", floor=2)
    col.rule("R-LEX", "the lexer maps the four punctuation characters to distinct token types, "
             "which are the bracket/separator types the parser tests for; everything else is a "
             "number or a literal; a number is the conversion of the whole word", floor=5)
    col.rule("R-LABEL", "tree labels accepted by the parser = labels the converter maps to a node "
             "type (same case folding); axon -> axon type, dendrite -> a dendrite type", floor=3, shape=True)
    col.rule("R-COUNTER", "conversion walk: one fresh id per point (read, then a single +1), "
             "every column appended exactly once per point, the recorded parent is the id handed "
             "down by the enclosing point, children receive this point's id; headers pass the "
             "parent through; colours and comments yield no node", floor=6, shape=True)
    col.rule("R-ORDER", "document order: LIFO frames with children pushed in reverse (or in-order "
             "recursion); a point's coordinates/radius go to the columns of the same name", floor=3, shape=True)
    col.rule("R-POINT", "a point is exactly four numbers then a closing bracket, stored in "
             "x, y, z, r order; alternatives of a split hang on the point before the split; "
             "after a split the chain resumes from that point", floor=4, shape=True)
    col.rule("R-EXC", "every parse failure surfaces as an exception: the wrapper's handlers "
             "re-raise on every path and no context manager on the conversion path suppresses",
             floor=3)
    col.not_decided += ["the lexer's number grammar (regex) and whitespace handling as a "
                        "language statement", "'exactly one node per point' as a count over all "
                        "documents (follows from R-BAL + R-COUNTER, not proved as a whole)",
                        "trailing text after the document's closing bracket"]
    col.assumptions += ["next(lexer, None) keeps returning None after the end of input",
                        "ASTNode methods do not touch the lexer (checked: look-ahead attribute is "
                        "assigned only in the advance primitive)"]

    repo = ctx.repo
    col.guard(anchored, ctx, col)
    lex = lexer_table(ctx, col)
    col.guard(balance, ctx, col, lex)
    for q in (f"{CONV}.from_stream", f"{CONV}.convert"):
        recursion_free(ctx, col, "R-CG", [q], f"recursion-free from {q.rsplit('.', 1)[-1]}", allow=())
    col.guard(labels, ctx, col)
    col.guard(walk, ctx, col)
    col.guard(points, ctx, col)
    col.guard(errors, ctx, col)


# --------------------------------------------------------------------------- lexer


def lexer_table(ctx, col):
    repo = ctx.repo
    R = "R-LEX"
    d = repo.get_def(f"{MOD}.Lexer.__next__")
    m = [s for s in d.node.body if isinstance(s, ast.Match)]
    if len(m) != 1:
        raise AnalysisError("anchor-vanished: the `match` of Lexer.__next__")
    table = {}
    for case in m[0].cases:
        p = case.pattern
        if isinstance(p, ast.MatchValue) and isinstance(p.value, ast.Constant) and isinstance(p.value.value, str):
            rets = [n for n in ast.walk(case) if isinstance(n, ast.Return) and isinstance(n.value, ast.Call)]
            if rets and rets[0].value.args:
                dn = dotted(rets[0].value.args[0]) or ""
                table[p.value.value] = dn.rsplit(".", 1)[-1]
    generic = set()  # types produced by the non-punctuation cases (number / literal)
    for case in m[0].cases:
        if not (isinstance(case.pattern, ast.MatchValue) and isinstance(case.pattern.value, ast.Constant)):
            for r in ast.walk(case):
                if isinstance(r, ast.Return) and isinstance(r.value, ast.Call) and r.value.args:
                    generic.add((dotted(r.value.args[0]) or "").rsplit(".", 1)[-1])
    enum = repo.get_class(f"{MOD}.TokenType")
    names = [t.id for s in enum.node.body if isinstance(s, ast.Assign) for t in s.targets if isinstance(t, ast.Name)]
    want = {"(": "BRACKET_LEFT", ")": "BRACKET_RIGHT", "|": "OR", ";": "COMMENT"}
    for ch in want:
        got = table.get(ch)
        col.judge(got is not None, got in names and list(table.values()).count(got) == 1 and got not in generic, R, d.qualname, d.loc(),
                  f"`{ch}` has its own token type", f"{ch!r} -> {got}",
                  f"{ch!r} is mapped to {got}, which is not a distinct member of TokenType", stmt=f"lex:{ch}",
                  facts={"table": table})
    # numbers: the whole word is converted (float() itself rejects a malformed word); a prefix
    # match whose matched text alone is converted accepts `1.2.3`, `12abc`, ...
    for case in m[0].cases:
        rets = [r for r in ast.walk(case) if isinstance(r, ast.Return) and isinstance(r.value, ast.Call) and r.value.args
                and (dotted(r.value.args[0]) or "").endswith("FLOAT")]
        if not rets:
            continue
        val = rets[0].value.args[1] if len(rets[0].value.args) > 1 else None
        conv = val if isinstance(val, ast.Call) and dotted(val.func) == "float" and val.args else None
        word = None
        subj = m[0].subject
        if isinstance(subj, ast.NamedExpr):
            word = subj.target.id
        arg = norm_src(conv.args[0]) if conv is not None else ""
        methods = {c.func.attr for c in ast.walk(case) if isinstance(c, ast.Call) and isinstance(c.func, ast.Attribute)
                   and c.func.attr in ("match", "fullmatch", "search")}
        whole = conv is not None and arg == word
        via_group = conv is not None and ".group(" in arg
        if via_group and "fullmatch" not in methods:
            col.bad(R, d.qualname, d.loc(conv), "a number token is the conversion of the whole word",
                    f"`{norm_src(conv)}` converts only the text matched by a prefix match ({sorted(methods)}): a corrupted field "
                    f"such as `1.2.3` or `12abc` becomes a number instead of an error", stmt="lex:float")
        else:
            col.judge(conv is not None, whole or (via_group and "fullmatch" in methods), R, d.qualname, d.loc(rets[0]),
                      "a number token is the conversion of the whole word", norm_src(rets[0].value),
                      f"`{norm_src(rets[0].value)}` does not convert the whole word", stmt="lex:float")
    col.guard(number_language, ctx, col, d, m[0])
    return {"types": names, "open": table.get("("), "close": table.get(")"), "or": table.get("|"),
            "comment": table.get(";")}


# what float() reads (ASCII part of the grammar in the language reference: digit groups may be separated by single underscores; inf / nan in any case); blanks cannot occur in a word
_PY_DIGITS = r"[0-9](?:_?[0-9])*"
PY_FLOAT = (rf"^[-+]?(?:(?:(?:{_PY_DIGITS})?\.{_PY_DIGITS}|{_PY_DIGITS}\.?)(?:[eE][-+]?{_PY_DIGITS})?|[iI][nN][fF](?:[iI][nN][iI][tT][yY])?|[nN][aA][nN])$")
NUMERAL = r"^[-+]?(?:[0-9]+\.?[0-9]*|\.[0-9]+)(?:[eE][-+]?[0-9]+)?$"
WORD_ALPHABET = list("0123456789+-._eEinfatyINFATYx")


def number_language(ctx, col, d, match_stmt):
    """R-NUMLANG: the words the lexer turns into FLOAT tokens, L(regex test as applied) intersected with L(float()), must be included in the plain decimal numerals
    (product of three automata; a shortest offending word is reported)."""
    from .. import relang
    from collections import deque
    repo = ctx.repo
    col.rule("R-NUMLANG", "the words the lexer turns into numbers are plain decimal numerals: L(regex test as applied: match = prefix, fullmatch = whole word; none = every word) "
             "intersected with what float() reads (underscore-separated digit groups, inf, nan) is included in [-+]digits[.digits][e[-+]digits] -- product automaton, shortest "
             "counterexample; otherwise a corrupted coordinate such as `1_5` is converted (to 15) instead of rejected", floor=1)
    arm = None
    for case in match_stmt.cases:
        for r in ast.walk(case):
            if isinstance(r, ast.Return) and isinstance(r.value, ast.Call) and r.value.args and (dotted(r.value.args[0]) or "").endswith("FLOAT"):
                arm = (case, r)
    if arm is None:
        col.unresolved("R-NUMLANG", d.qualname, d.loc(), "number words", "no arm returning a FLOAT token", stmt="numlang")
        return
    case, ret = arm
    conv = ret.value.args[1] if len(ret.value.args) > 1 else None
    if not (isinstance(conv, ast.Call) and dotted(conv.func) == "float" and conv.args and isinstance(conv.args[0], ast.Name)):
        col.unresolved("R-NUMLANG", d.qualname, d.loc(ret), "number words", "the FLOAT token's value is not float(<word>)", stmt="numlang")
        return
    word = conv.args[0].id
    tests = []
    for c in ast.walk(case):
        if isinstance(c, ast.Call) and isinstance(c.func, ast.Attribute) and c.func.attr in ("match", "fullmatch", "search") and c.args and isinstance(c.args[0], ast.Name) \
                and c.args[0].id == word and isinstance(c.func.value, ast.Name):
            tests.append((c.func.value.id, c.func.attr, c))
    # the test must dominate the conversion: accepted only as the guard of this case or an enclosing `if` test
    pats = []
    for nm, meth, c in tests:
        in_guard = case.guard is not None and any(x is c for x in ast.walk(case.guard))
        in_if = any(isinstance(i_, ast.If) and any(x is c for x in ast.walk(i_.test)) and any(x is ret for x in ast.walk(i_)) and not any(x is ret for o_ in i_.orelse for x in ast.walk(o_))
                    for i_ in ast.walk(case))
        if not (in_guard or in_if):
            continue
        src = None
        for st in d.module.tree.body:
            if isinstance(st, ast.Assign) and len(st.targets) == 1 and isinstance(st.targets[0], ast.Name) and st.targets[0].id == nm and isinstance(st.value, ast.Call) \
                    and (dotted(st.value.func) or "") == "re.compile" and st.value.args and isinstance(st.value.args[0], ast.Constant) and len(st.value.args) == 1 and not st.value.keywords:
                src = st.value.args[0].value
        if src is None:
            col.unresolved("R-NUMLANG", d.qualname, d.loc(c), "number words", f"pattern of `{nm}` is not a literal re.compile(...) without flags", stmt="numlang")
            return
        pats.append((src, meth))
    autos = []
    try:
        for src, meth in pats:
            if meth == "fullmatch":
                autos.append(relang.compile_nfa(f"^(?:{src})$"))
            elif meth == "match":
                autos.append(relang.compile_nfa(f"^(?:{src})", search=True))
            else:
                autos.append(relang.compile_nfa(f"(?:{src})", search=True))
        autos.append(relang.compile_nfa(PY_FLOAT))
        B, b0, bF = relang.compile_nfa(NUMERAL)
    except relang.UnsupportedRegex as ex:
        col.unresolved("R-NUMLANG", d.qualname, d.loc(), "number words", f"regex outside the supported constructs: {ex}", stmt="numlang")
        return
    start = (tuple(relang._closure(A, {a0}) for A, a0, _f in autos), relang._closure(B, {b0}))
    seen = {start: None}
    q = deque([start])
    cex = None
    while q and cex is None:
        cur = q.popleft()
        SAs, SB = cur
        if all(aF in SA for (A, a0, aF), SA in zip(autos, SAs)) and bF not in SB:
            w_, x = [], cur
            while seen[x] is not None:
                x, ch = seen[x]
                w_.append(ch)
            cex = "".join(reversed(w_))
            break
        for ch in WORD_ALPHABET:
            NAs = tuple(relang._step(A, SA, ch) for (A, _a0, _aF), SA in zip(autos, SAs))
            if not all(NAs):
                continue
            nxt = (NAs, relang._step(B, SB, ch))
            if nxt not in seen:
                seen[nxt] = (cur, ch)
                q.append(nxt)
    how = " and ".join(f"{m_}({p_!r})" for p_, m_ in pats) or "no regex test (every word that float() reads)"
    if cex is None:
        col.ok("R-NUMLANG", d.qualname, d.loc(ret), "every word that becomes a number is a plain decimal numeral", f"{how}; {len(seen)} product states", stmt="numlang")
    else:
        try:
            val = float(cex)
        except ValueError:
            val = "?"
        col.bad("R-NUMLANG", d.qualname, d.loc(ret), "every word that becomes a number is a plain decimal numeral",
                f"the word `{cex}` passes {how} and float() reads it (as {val}): a point whose coordinate was corrupted to `{cex}` is converted with that value instead of being "
                f"rejected (float() accepts underscore-separated digit groups, inf and nan; a prefix test does not see what follows the prefix)", stmt="numlang", definite=True,
                facts={"counterexample": cex})


# --------------------------------------------------------------------------- balance


def balance(ctx, col, lex):
    repo = ctx.repo
    R = "R-BAL"
    cls = repo.get_class(PARSER)
    entry = "_parse"
    if entry not in cls.methods:
        raise AnalysisError("anchor-vanished: Parser._parse")
    # look-ahead is assigned only by the advance primitive
    try:
        eng = Engine(ctx, cls)
        eng.set_alphabet(lex["types"], lex["open"], lex["close"])
        writers = []
        for d in repo.all_defs():
            if d.module.name != MOD:
                continue
            for n in own_nodes(d):
                if isinstance(n, (ast.Assign, ast.AugAssign, ast.AnnAssign)):
                    tg = n.targets if isinstance(n, ast.Assign) else [n.target]
                    for t in tg:
                        if isinstance(t, ast.Attribute) and t.attr == eng.la_attr and d is not eng.advance \
                                and not (d.name == "__init__" and d.cls is cls):
                            writers.append(d.qualname)
        col.check(not writers, R, cls.qualname, cls.loc() if hasattr(cls, "loc") else eng.advance.loc(),
                  "the look-ahead is advanced only by the primitive that reads the lexer",
                  f"primitive: {eng.advance.qualname}", f"look-ahead also assigned in {writers}", stmt="advance")
        outcomes = eng.analyse(entry)
    except Unsupported as u:
        col.unresolved(R, cls.qualname, f"{cls.module.relpath}:{getattr(u.node, 'lineno', 0)}", "parser typestate",
                       f"construct outside the modelled parser sub-language: {u}", stmt="engine")
        return
    ctx_facts = {"states_explored": eng.states_explored, "summaries": {k: sorted(map(str, v)) for k, v in eng.summaries.items()}}
    col.analysed["parser_states_explored"] = eng.states_explored

    def fmt(trace):
        return " ".join(f"{t}@{l}" for l, t in trace[-14:])

    # parse methods = those that build the syntax tree (take or return an AST node); the token
    # primitives (_consume, _assert, ...) have an effect that depends on their argument
    def is_parse_method(d):
        anns = [d.param_annotation(p) for p in d.params] + [getattr(d.node, "returns", None)]
        return any(a is not None and "AST" in norm_src(a) for a in anns)

    for name, d in cls.methods.items():
        if name in ("__init__", "parse") or not is_parse_method(d):
            continue
        oc = outcomes.get(name)
        if oc is None:
            col.info(R, d.qualname, d.loc(), "not reached from the document parser")
            continue
        normal = {k: v for k, v in oc.items() if not k[1]}
        eofs = {k: v for k, v in oc.items() if k[1]}
        deltas = sorted({k[0] for k in normal}, key=str)
        facts = {"normal_exits": [str(k[0]) for k in normal], "eof_exits": [str(k[0]) for k in eofs], **ctx_facts}
        if "?" in deltas:
            col.unresolved(R, d.qualname, d.loc(), f"{name}: bracket effect",
                           "a consumed token's type is not determined on some path", stmt=f"effect:{name}", facts=facts)
            continue
        if name == entry:
            bad = [x for x in deltas if x != 0]
            bad_eof = [k for k in eofs]  # _parse must not return normally with the input exhausted *and* depth != 0
            bad_eof = [k for k in eofs if k[0] != 0]
            if bad or bad_eof:
                k = (bad[0], False) if bad else bad_eof[0]
                col.bad(R, d.qualname, d.loc(), "the document parser returns only with every bracket closed",
                        f"`{name}` can return with bracket depth {k[0]} "
                        f"({'unbounded' if k[0] == UNB else 'unbalanced'}): a document with an unclosed or "
                        f"stray bracket is accepted; token path: {fmt(oc[k])}", stmt="doc-balance", facts=facts)
            else:
                col.ok(R, d.qualname, d.loc(), "the document parser returns only with every bracket closed",
                       f"all {len(oc)} return outcomes have depth 0", stmt="doc-balance", facts=facts)
            continue
        if len(deltas) > 1 or (deltas and deltas[0] == UNB):
            worst = [k for k in normal if k[0] == deltas[-1]][0]
            col.bad(R, d.qualname, d.loc(), f"{name}: one bracket effect",
                    f"`{name}` can return having consumed a net of {deltas} brackets: a construct does not "
                    f"consume its own closing bracket (or consumes one that belongs to its caller); "
                    f"token path to depth {worst[0]}: {fmt(normal[worst])}", stmt=f"effect:{name}", facts=facts)
        elif not deltas:
            col.unresolved(R, d.qualname, d.loc(), f"{name}: bracket effect", "method never returns normally",
                           stmt=f"effect:{name}", facts=facts)
        else:
            col.ok(R, d.qualname, d.loc(), f"{name}: one bracket effect", f"net effect {deltas[0]} on every "
                   f"normal return ({len(normal)} outcome(s)); {len(eofs)} end-of-input exit(s) handed to the caller",
                   stmt=f"effect:{name}", facts=facts)
    # end of input: every EOF exit must end in an exception before the document parser returns
    oc = outcomes.get(entry, {})
    eof_ret = [k for k in oc if k[1]]
    d = cls.methods[entry]
    # a normal return of `_parse` with look-ahead EOF is fine only at depth 0 *after* the final bracket
    col.check(all(k[0] == 0 for k in eof_ret), R, d.qualname, d.loc(),
              "end of input inside a construct is an error",
              "no return of the document parser with open brackets at end of input",
              "the document parser can return at end of input with open brackets", stmt="eof")


# --------------------------------------------------------------------------- labels


def _case_strings(case):
    p = case.pattern
    out = []
    for q in (p.patterns if isinstance(p, ast.MatchOr) else [p]):
        if isinstance(q, ast.MatchValue) and isinstance(q.value, ast.Constant) and isinstance(q.value.value, str):
            out.append(q.value.value)
    return out


def labels(ctx, col):
    repo = ctx.repo
    R = "R-LABEL"
    p = repo.get_def(f"{PARSER}._parse")
    accepted = None
    subj_p = None
    for m in [n for n in own_nodes(p) if isinstance(n, ast.Match)]:
        for case in m.cases:
            calls = [dotted(c.func) for c in ast.walk(case) if isinstance(c, ast.Call)]
            if "self._parse_tree" in calls:
                accepted = _case_strings(case)
                subj_p = norm_src(m.subject)
    if accepted is None:
        raise AnalysisError("anchor-vanished: the case of Parser._parse that starts a tree")
    tree = repo.get_def(f"{PARSER}._parse_tree")
    mk = [c for c in own_nodes(tree) if isinstance(c, ast.Call) and dotted(c.func) == "ASTNode"
          and c.args and (dotted(c.args[0]) or "").endswith("TREE")]
    stored_upper = bool(mk) and len(mk[0].args) > 1 and "upper" in norm_src(mk[0].args[1])
    conv = repo.get_def(f"{CONV}.from_ast")
    mapped = {}
    for d in [conv] + list(conv.nested.values()):
        for m in [n for n in own_nodes(d) if isinstance(n, ast.Match)]:
            if norm_src(m.subject).endswith(".value"):
                for case in m.cases:
                    for s in _case_strings(case):
                        tv = [dotted(x) for x in ast.walk(case) if isinstance(x, ast.Attribute)
                              and isinstance(x.value, ast.Name) and x.value.id == "types"]
                        mapped[s] = tv[0] if tv else None
    upper_ok = "upper" in (subj_p or "") and stored_upper and all(s == s.upper() for s in list(mapped) + accepted)
    col.check(upper_ok, R, p.qualname, p.loc(), "labels are compared case-folded on both sides",
              f"parser subject `{subj_p}`, stored `{norm_src(mk[0].args[1]) if mk else ''}`",
              "the parser and the converter do not fold the label's case the same way", stmt="case")
    col.check(set(accepted) == set(mapped), R, conv.qualname, conv.loc(),
              "accepted labels = mapped labels", f"{sorted(accepted)}",
              f"parser accepts {sorted(accepted)} but the converter maps {sorted(mapped)}: a tree with an "
              f"unmapped label gets the wrong node type", stmt="labels", facts={"accepted": accepted, "mapped": mapped})
    ok = mapped.get("AXON") == "types.axon" and (mapped.get("DENDRITE") or "").endswith("dendrite")
    col.check(ok, R, conv.qualname, conv.loc(), "axon -> axon type, dendrite -> dendrite type", str(mapped),
              f"label -> type table is {mapped}", stmt="types")


# --------------------------------------------------------------------------- conversion walk


def walk(ctx, col):
    repo = ctx.repo
    conv = repo.get_def(f"{CONV}.from_ast")
    RC, RO = "R-COUNTER", "R-ORDER"
    q = conv.qualname
    loops = [n for n in conv.node.body if isinstance(n, ast.While)]
    rec = [d for d in conv.nested.values() if any(isinstance(c, ast.Call) and isinstance(c.func, ast.Name)
                                                   and c.func.id == d.name for c in own_nodes(d))]
    if rec and not loops:
        d = rec[0]
        scope, body_match = d, [n for n in d.node.body if isinstance(n, ast.Match)]
        form = "recursive"
    elif len(loops) == 1:
        d = conv
        scope, body_match = conv, [n for n in loops[0].body if isinstance(n, ast.Match)]
        form = "stack"
    else:
        for r in (RC, RO):
            col.unresolved(r, q, conv.loc(), "conversion walk", "neither a work-list loop nor a recursive closure found", stmt="walk")
        return
    if len(body_match) != 1:
        col.unresolved(RC, q, conv.loc(), "conversion walk", "no single `match` on the node kind", stmt="walk")
        return
    m = body_match[0]
    arms = {}
    for case in m.cases:
        dn = dotted(case.pattern.value) if isinstance(case.pattern, ast.MatchValue) else None
        arms[(dn or "_").rsplit(".", 1)[-1]] = case
    node = arms.get("NODE")
    if node is None:
        raise AnalysisError("anchor-vanished: the NODE arm of the conversion walk")
    # counter discipline
    incs = [s for s in ast.walk(node) if isinstance(s, ast.AugAssign) and isinstance(s.target, ast.Name)]
    counter = incs[0].target.id if incs else None
    top_inc = [s for s in node.body if isinstance(s, ast.AugAssign) and isinstance(s.target, ast.Name)
               and s.target.id == counter]
    other_writes = [s for s in own_nodes(scope if form == "recursive" else conv)
                    if isinstance(s, (ast.AugAssign,)) and isinstance(s.target, ast.Name) and s.target.id == counter
                    and s not in top_inc]
    ok = len(incs) == 1 and len(top_inc) == 1 and isinstance(top_inc[0].op, ast.Add) \
        and isinstance(top_inc[0].value, ast.Constant) and top_inc[0].value.value == 1 and not other_writes
    col.check(ok, RC, q, conv.loc(node.body[0]), "one id per point: the counter is incremented exactly once, by one, "
              "unconditionally, and nowhere else", norm_src(top_inc[0]) if top_inc else "",
              f"counter updates in the NODE arm: {[norm_src(s) for s in incs]}; elsewhere: {[norm_src(s) for s in other_writes]}",
              stmt="inc")
    reads = [s for s in node.body if isinstance(s, ast.Assign) and isinstance(s.value, ast.Name) and s.value.id == counter]
    idx = reads[0].targets[0].id if reads and isinstance(reads[0].targets[0], ast.Name) else None
    before = bool(reads) and bool(top_inc) and node.body.index(reads[0]) < node.body.index(top_inc[0])
    col.check(idx is not None and before, RC, q, conv.loc(node.body[0]), "the point's id is read before the increment",
              norm_src(reads[0]) if reads else "", "the id is not taken from the counter before it is incremented", stmt="read")
    # appends: column -> value
    apps = {}
    dup = []
    for s in node.body:
        if isinstance(s, ast.Expr) and isinstance(s.value, ast.Call) and isinstance(s.value.func, ast.Attribute) \
                and s.value.func.attr == "append" and isinstance(s.value.func.value, ast.Subscript):
            key = norm_src(s.value.func.value.slice)
            if key in apps:
                dup.append(key)
            apps[key] = (norm_src(s.value.args[0]), s)
    want = {f"names.{k}" for k in ("id", "type", "x", "y", "z", "r", "pid")}
    col.check(set(apps) == want and not dup, RC, q, conv.loc(node.body[0]), "every column gets exactly one value per point",
              f"{sorted(apps)}", f"columns appended: {sorted(apps)}, duplicates {dup}, expected {sorted(want)}", stmt="cols")
    col.check(apps.get("names.id", ("",))[0] == idx, RC, q, conv.loc(node.body[0]), "the id column receives the fresh id",
              "", f"id column receives `{apps.get('names.id', ('',))[0]}`", stmt="idcol")
    # parent: the value handed down
    if form == "stack":
        pops = [s for s in loops[0].body if isinstance(s, ast.Assign) and isinstance(s.value, ast.Call)
                and isinstance(s.value.func, ast.Attribute) and s.value.func.attr == "pop"]
        if len(pops) != 1 or not isinstance(pops[0].targets[0], ast.Tuple):
            col.unresolved(RC, q, conv.loc(), "frame layout", "no `a, b, c = stack.pop()`", stmt="frame")
            return
        pop = pops[0]
        fields = [e.id for e in pop.targets[0].elts]
        stackv = pop.value.func.value.id
        pidv = apps.get("names.pid", ("",))[0]
        pid_stmt = apps.get("names.pid", (None, None))[1]
        # recorded parent must be a frame field not yet overwritten
        rebind = [s for s in node.body if isinstance(s, ast.Assign) and any(isinstance(t, ast.Name) and t.id == pidv for t in s.targets)]
        ok = pidv in fields and all(node.body.index(r) > node.body.index(pid_stmt) for r in rebind)
        col.check(ok, RC, q, conv.loc(pid_stmt) if pid_stmt is not None else conv.loc(),
                  "the recorded parent is the id handed down in the frame", f"pid column <- `{pidv}` of frame {fields}",
                  f"pid column receives `{pidv}`, which is not the frame's parent field at that point", stmt="pidcol",
                  definite=_plain_known(col, q, pid_stmt))
        # children pushes
        pushes = [c for c in ast.walk(loops[0]) if isinstance(c, ast.Call) and isinstance(c.func, ast.Attribute)
                  and c.func.attr in ("extend", "append") and isinstance(c.func.value, ast.Name) and c.func.value.id == stackv]
        if len(pushes) != 1:
            col.unresolved(RC, q, conv.loc(), "child frames", f"{len(pushes)} push sites", stmt="push")
            return
        push = pushes[0]
        gen = push.args[0]
        elt = gen.elt if isinstance(gen, (ast.GeneratorExp, ast.ListComp)) else None
        it = gen.generators[0].iter if elt is not None else None
        ok_shape = elt is not None and isinstance(elt, ast.Tuple) and len(elt.elts) == len(fields)
        if not ok_shape:
            col.unresolved(RC, q, conv.loc(push), "child frames", "push is not a generator of frame tuples", stmt="push")
            return
        child_pid = norm_src(elt.elts[fields.index(pidv)]) if pidv in fields else ""
        # value of child_pid at the push, per arm: NODE arm must make it the fresh id; other arms leave it
        node_sets = [s for s in node.body if isinstance(s, ast.Assign) and any(isinstance(t, ast.Name) and t.id == child_pid for t in s.targets)]
        node_val = norm_src(node_sets[-1].value) if node_sets else child_pid
        ok = (child_pid == idx) or (node_val == idx)
        # pushing `idx` directly would be wrong for non-NODE arms only if idx is unbound there; pushes are shared
        col.check(ok, RC, q, conv.loc(push), "children of a point receive that point's id as parent",
                  f"children pushed with `{child_pid}` (= `{node_val}` after the NODE arm)",
                  f"children are pushed with parent `{child_pid}`, which after the NODE arm is `{node_val}`, not the point's id `{idx}`",
                  stmt="childpid")
        others_touch = []
        for k, case in arms.items():
            if k == "NODE":
                continue
            for s in ast.walk(case):
                if isinstance(s, ast.Assign) and any(isinstance(t, ast.Name) and t.id == child_pid for t in s.targets):
                    others_touch.append(k)
        col.check(not others_touch, RC, q, conv.loc(m), "headers (root, tree label) pass the parent through unchanged",
                  "", f"arms {others_touch} change the parent handed to their children", stmt="passthrough")
        # colours/comments: no node and no children pushed
        rest = arms.get("_")
        skip = rest is not None and any(isinstance(s, ast.Continue) for s in rest.body)
        explicit = {k for k in arms if k not in ("_",)}
        col.check(skip or explicit >= {"ROOT", "TREE", "NODE", "COLOR", "COMMENT"}, RC, q, conv.loc(m),
                  "colours and comments produce no node", "", "non-point syntax nodes fall into the point handling", stmt="skip")
        # order
        lifo = not pop.value.args
        rev = isinstance(it, ast.Call) and dotted(it.func) == "reversed" and norm_src(it.args[0]).endswith(".children")
        fwd = it is not None and norm_src(it).endswith(".children")
        fifo = bool(pop.value.args) and norm_src(pop.value.args[0]) == "0"
        recognised = (lifo or fifo) and (rev or fwd)
        col.judge(recognised, lifo and rev, RO, q, conv.loc(pop), "points are numbered in document order",
                  f"`{norm_src(pop.value)}` + children pushed `{norm_src(it) if it is not None else ''}`",
                  f"`{norm_src(pop.value)}` with children pushed as `{norm_src(it) if it is not None else ''}` does not visit "
                  f"the points in document order (depth first, first alternative first)", stmt="order", definite=True)
        col.check(norm_src(elt.elts[0]) == gen.generators[0].target.id, RO, q, conv.loc(push), "each child gets its own frame", "",
                  "child frame does not carry the child", stmt="childframe")
    else:
        d = rec[0]
        pidp = [p for p in d.params if p != d.params[0]]
        pidv = apps.get("names.pid", ("",))[0]
        col.check(pidv in pidp, RC, q, conv.loc(), "the recorded parent is the id handed down by the caller", pidv,
                  f"pid column receives `{pidv}`", stmt="pidcol")
        calls = [c for c in ast.walk(node) if isinstance(c, ast.Call) and isinstance(c.func, ast.Name) and c.func.id == d.name]
        ok = bool(calls) and all(any(norm_src(k.value) == idx for k in c.keywords) or (len(c.args) > 1 and norm_src(c.args[1]) == idx) for c in calls)
        col.check(ok, RC, q, conv.loc(), "children of a point receive that point's id as parent", "",
                  "recursive call for the children does not pass the point's id", stmt="childpid")
        fors = [n for n in ast.walk(node) if isinstance(n, ast.For)]
        ok = bool(fors) and norm_src(fors[0].iter).endswith(".children")
        col.judge(bool(fors), ok, RO, q, conv.loc(), "points are numbered in document order", "", "children are not visited in order", stmt="order")
        col.ok(RO, q, conv.loc(), "each child gets its own frame", stmt="childframe")
        col.ok(RC, q, conv.loc(), "headers pass the parent through unchanged", stmt="passthrough")
        col.ok(RC, q, conv.loc(), "colours and comments produce no node", stmt="skip")
    # coordinates go to the columns of the same name
    unpack = [s for s in node.body if isinstance(s, ast.Assign) and isinstance(s.targets[0], ast.Tuple)
              and norm_src(s.value).endswith(".value")]
    names4 = [e.id for e in unpack[0].targets[0].elts] if unpack else []
    ok = names4 == ["x", "y", "z", "r"] and all(apps.get(f"names.{k}", ("",))[0] == k for k in "xyzr")
    col.check(ok, RO, q, conv.loc(unpack[0]) if unpack else conv.loc(), "x, y, z, r of the point go to the columns x, y, z, r",
              f"{names4}", f"point value unpacked as {names4}; columns receive "
              f"{ {k: apps.get('names.' + k, ('',))[0] for k in 'xyzr'} }", stmt="xyzr")
    # type of the point = label type of the enclosing tree
    tv = apps.get("names.type", ("",))[0]
    col.check(tv in ("typee", "typee[-1]"), RC, q, conv.loc(), "a point is typed by the enclosing tree's label", tv,
              f"type column receives `{tv}`", stmt="typecol")


# --------------------------------------------------------------------------- points & splits


def _plain_known(col, q, stmt) -> bool:
    """the statement is written with locals the rule knows only (no temporaries or helpers of a later edit) and calls nothing
    but the method it is about: what it says can be read off it"""
    if stmt is None:
        return False
    unk = col._unknown_locals(q)
    if unk is None:
        return False
    ids = {n.id for n in ast.walk(stmt) if isinstance(n, ast.Name)}
    ncalls = sum(1 for n in ast.walk(stmt) if isinstance(n, ast.Call))
    return not (ids & unk) and ncalls <= 1


def points(ctx, col):
    repo = ctx.repo
    R = "R-POINT"
    d = repo.get_def(f"{PARSER}._parse_node")
    # token consumption sequence: assert FLOAT x4 then BRACKET_RIGHT
    seq = []
    for s in d.node.body:
        for c in ast.walk(s):
            if isinstance(c, ast.Call) and dotted(c.func) in ("self._assert_and_cunsume", "self._assert"):
                t = dotted(c.args[-1]) or ""
                seq.append(t.rsplit(".", 1)[-1])
    straight = not any(isinstance(x, (ast.For, ast.While, ast.ListComp, ast.GeneratorExp, ast.If, ast.Try, ast.Match)) for x in own_nodes(d)) \
        and all(t in ("FLOAT", "BRACKET_RIGHT") for t in seq)
    # straight-line code: the asserted token types ARE the accepted token sequence (a fact, not a shape)
    col.check(seq == ["FLOAT"] * 4 + ["BRACKET_RIGHT"], R, d.qualname, d.loc(), "a point is four numbers and a closing bracket",
              str(seq), f"token sequence asserted by the point parser is {seq}", stmt="seq", definite=straight)
    asg = [s for s in d.node.body if isinstance(s, ast.Assign) and isinstance(s.targets[0], ast.Tuple)
           and [getattr(e, "id", None) for e in s.targets[0].elts] == ["x", "y", "z", "r"]]
    toks = [s.targets[0].id for s in d.node.body if isinstance(s, ast.Assign) and isinstance(s.targets[0], ast.Name)
            and isinstance(s.value, ast.Call) and dotted(s.value.func) in ("self._assert_and_cunsume", "self._assert")]
    ok = bool(asg) and [norm_src(e) for e in asg[0].value.elts] == [f"{t}.value" for t in toks[:4]]
    col.check(ok, R, d.qualname, d.loc(asg[0]) if asg else d.loc(), "the four numbers are stored in reading order as x, y, z, r",
              norm_src(asg[0]) if asg else "", f"`{norm_src(asg[0]) if asg else ''}` does not take the 1st..4th number in order", stmt="xyzr")
    mk = [c for c in own_nodes(d) if isinstance(c, ast.Call) and dotted(c.func) == "ASCNode"]
    col.check(bool(mk) and [norm_src(a) for a in mk[0].args] == ["x", "y", "z", "r"], R, d.qualname, d.loc(),
              "the point record is built as (x, y, z, r)", "", "ASCNode arguments are not x, y, z, r", stmt="record")
    rets = [s for s in d.node.body if isinstance(s, ast.Return)]
    adds = [c for c in own_nodes(d) if isinstance(c, ast.Call) and isinstance(c.func, ast.Attribute) and c.func.attr == "add_child"]
    ok = len(adds) == 1 and norm_src(adds[0].func.value) == d.params[1] and rets and norm_src(rets[0].value) == norm_src(adds[0].args[0])
    col.check(bool(ok), R, d.qualname, d.loc(), "a point becomes a child of the point it follows and is returned as the new chain end",
              "", "the new point is not attached to the given predecessor / not returned", stmt="attach")
    # chain / split bookkeeping in _parse_subtree
    sub = repo.get_def(f"{PARSER}._parse_subtree")
    src = [norm_src(s) for s in ast.walk(sub.node) if isinstance(s, ast.stmt)]
    chain = any(s.startswith("current = self._parse_node(current)") for s in src)
    col.check(chain, R, sub.qualname, sub.loc(), "consecutive points chain: each point hangs on the previous one", "",
              "the point parser's result does not become the next predecessor", stmt="chain")
    stackform = any(".append(current)" in s for s in src)
    if stackform:
        orarm = any(s.startswith("current = ") and s.endswith("[-1]") for s in src)
        closearm = any(s.startswith("current = ") and s.endswith(".pop()") for s in src)
        col.check(orarm and closearm, R, sub.qualname, sub.loc(),
                  "each alternative of a split restarts from the point before the split; after the split the chain resumes there",
                  "", "the `|` / `)` arms do not restore the point the split hangs on", stmt="alt")
    else:
        orarm = "current = root" in src
        col.check(orarm, R, sub.qualname, sub.loc(), "each alternative of a split restarts from the point before the split", "",
                  "the `|` arm does not restore the point the split hangs on", stmt="alt")


# --------------------------------------------------------------------------- errors


def errors(ctx, col):
    repo = ctx.repo
    R = "R-EXC"
    p = repo.get_def(f"{PARSER}.parse")
    tries = [n for n in p.node.body if isinstance(n, ast.Try)]
    if len(tries) != 1:
        raise AnalysisError("anchor-vanished: the try block of Parser.parse")
    for h in tries[0].handlers:
        ok = excrule.body_always_raises(h.body)
        col.check(ok, R, p.qualname, p.loc(h), f"handler `{norm_src(h.type) if h.type else 'bare'}` re-raises on every path",
                  "", "a handler of the parse wrapper can complete without raising: a failed parse returns normally", stmt=f"handler:{norm_src(h.type) if h.type else ''}")
    col.check(not tries[0].finalbody or not any(isinstance(s, ast.Return) for s in ast.walk(ast.Module(body=tries[0].finalbody, type_ignores=[]))),
              R, p.qualname, p.loc(), "no `finally: return` discards the exception", "", "a return in `finally` swallows errors", stmt="finally")
    for q in (f"{CONV}.from_stream", f"{CONV}.convert"):
        d = repo.get_def(q)
        sup = []
        for n in own_nodes(d):
            if isinstance(n, ast.With):
                for item in n.items:
                    v, why = excrule.with_item_verdict(ctx, item, d)
                    if v != "never":
                        sup.append((v, norm_src(item.context_expr), why))
            if isinstance(n, ast.Try):
                for h in n.handlers:
                    if not excrule.body_always_raises(h.body):
                        sup.append(("handler", norm_src(h.type) if h.type else "bare", "completes normally"))
        definite = [s for s in sup if s[0] in ("may", "handler")]
        if sup and not definite:
            col.unresolved(R, q, d.loc(), "no suppressor on the conversion path", str(sup), stmt="suppress")
        else:
            col.check(not definite, R, q, d.loc(), "no suppressor on the conversion path", "", f"errors can be swallowed: {definite}", stmt="suppress")


def anchored(ctx, col):
    """Statements that carry the clauses, matched three-way under one renaming per function."""
    repo = ctx.repo
    col.guard(lexer_lines, ctx, col)
    col.guard(colour_marker, ctx, col)
    conv = repo.get_def(f"{CONV}.from_ast")
    col.text_group("R-COUNTER", conv.qualname, conv, [
        ("frames are (syntax node, parent id, type); the walk starts at the document with no parent", ["stack = [(ast, -1, types.undefined)]",
                                                                                                 "stack: list[tuple[ASTNode, int, int]] = [(ast, -1, types.undefined)]"], "init"),
        ("frames are taken LIFO", ["root, pid, typee = stack.pop()"], "pop"),
        ("the point's id is the counter's value ...", ["idx = next_id"], "read"),
        ("... which then grows by one", ["next_id += 1", "next_id = next_id + 1"], "inc"),
        ("the id column receives the fresh id", ["ndata[names.id].append(idx)"], "idcol"),
        ("a point is typed by the enclosing tree's label", ["ndata[names.type].append(typee)"], "typecol"),
        ("the recorded parent is the id handed down in the frame", ["ndata[names.pid].append(pid)"], "pidcol"),
        ("children of a point receive that point's id as parent", ["pid = idx"], "childpid"),
        ("axon label -> axon type", ["typee = types.axon"], "axon"),
        ("dendrite label -> a dendrite type", ["typee = types.basal_dendrite", "typee = types.apical_dendrite"], "dendrite"),
        ("the tree is built from the collected columns with one node per id", ["tree = Tree(next_id, source=ast.source, names=names, **ndata)",
                                                                          "return Tree(next_id, source=ast.source, names=names, **ndata)"], "tree"),
    ], fixed=("ast", "names", "types", "Tree"),
        ordered=[("read", "inc", "the point's id is the counter's value before the increment (ids start at 0 and stay below the node count)"),
                 ("pidcol", "childpid", "the parent recorded for a point is the id handed down, not the point's own id")])
    # def-use: the parent id pushed for the children must have been re-bound to the point's id after the frame was popped
    pushed = []
    for n in own_nodes(conv):
        if isinstance(n, ast.Call) and isinstance(n.func, ast.Attribute) and n.func.attr in ("extend", "append") and n.args:
            for t in ast.walk(n.args[0]):
                if isinstance(t, ast.Tuple) and len(t.elts) == 3 and isinstance(t.elts[1], ast.Name):
                    pushed.append((n, t.elts[1].id))
    for n, nm in pushed:
        unpack = [a for a in own_nodes(conv) if isinstance(a, ast.Assign) and isinstance(a.targets[0], ast.Tuple) and
                  any(isinstance(e, ast.Name) and e.id == nm for e in a.targets[0].elts) and isinstance(a.value, ast.Call) and
                  isinstance(a.value.func, ast.Attribute) and a.value.func.attr == "pop"]
        rebind = [a for a in own_nodes(conv) if isinstance(a, (ast.Assign, ast.AugAssign)) and a not in unpack and
                  any(isinstance(e, ast.Name) and e.id == nm and isinstance(e.ctx, ast.Store) for e in ast.walk(a))]
        if unpack and not rebind:
            col.bad("R-COUNTER", conv.qualname, conv.loc(n), "children of a point receive that point's id as parent",
                    f"`{norm_src(n)[:80]}` pushes `{nm}` for the children, and `{nm}` is only ever bound by unpacking the popped frame: every frame carries the "
                    f"parent id of the first frame, so all points are recorded as children of the document root marker", stmt="childpid-defuse", definite=True)
        elif unpack:
            col.ok("R-COUNTER", conv.qualname, conv.loc(n), "the parent id pushed for the children is re-bound after the frame is popped",
                   f"{len(rebind)} re-binding(s) of `{nm}`", stmt="childpid-defuse")
    # order parity of the explicit stack: frames popped from the END of a list come out in the reverse of the order they were pushed in, so children (kept in
    # document order) must be pushed through exactly one reversal; a FIFO (pop(0) / popleft) needs none
    col.rule("R-LIFO", "document order on the explicit stack: children are pushed onto a last-in-first-out list in reversed order (odd number of reversals), or onto a first-in-first-out "
             "queue in document order -- pushing several siblings forward onto a LIFO visits them last-first", floor=1)
    pops = [c for c in own_nodes(conv) if isinstance(c, ast.Call) and isinstance(c.func, ast.Attribute) and c.func.attr in ("pop", "popleft") and isinstance(c.func.value, ast.Name)]
    stacks = {}
    for c in pops:
        lifo = c.func.attr == "pop" and (not c.args or norm_src(c.args[0]) == "-1")
        stacks[c.func.value.id] = lifo
    n_push = 0
    for c in own_nodes(conv):
        if isinstance(c, ast.Call) and isinstance(c.func, ast.Attribute) and c.func.attr in ("extend", "extendleft") and isinstance(c.func.value, ast.Name) and c.func.value.id in stacks and c.args:
            arg = c.args[0]
            revs = 0
            cur = arg
            while True:
                if isinstance(cur, (ast.GeneratorExp, ast.ListComp)) and len(cur.generators) == 1:
                    cur = cur.generators[0].iter   # one frame per element (a filter drops some): the order of the iterable is kept
                elif isinstance(cur, ast.Call) and (dotted(cur.func) or "") == "reversed" and cur.args:
                    revs += 1
                    cur = cur.args[0]
                elif isinstance(cur, ast.Subscript) and isinstance(cur.slice, ast.Slice) and cur.slice.step is not None and norm_src(cur.slice.step) == "-1":
                    revs += 1
                    cur = cur.value
                elif isinstance(cur, ast.Call) and isinstance(cur.func, ast.Name) and cur.func.id in ("list", "tuple") and len(cur.args) == 1:
                    cur = cur.args[0]   # a copy keeps the order
                elif isinstance(cur, ast.Name):
                    bs = [a.value for a in own_nodes(conv) if isinstance(a, ast.Assign) and len(a.targets) == 1 and isinstance(a.targets[0], ast.Name) and a.targets[0].id == cur.id]
                    # head, *rest = children : the rest keeps the order of the sequence
                    bs += [a.value for a in own_nodes(conv) if isinstance(a, ast.Assign) and len(a.targets) == 1 and isinstance(a.targets[0], (ast.Tuple, ast.List))
                           and any(isinstance(t_, ast.Starred) and isinstance(t_.value, ast.Name) and t_.value.id == cur.id for t_ in a.targets[0].elts)]
                    if len(bs) == 1:
                        cur = bs[0]
                    else:
                        break
                elif isinstance(cur, ast.Subscript) and isinstance(cur.slice, ast.Slice) and cur.slice.step is None:
                    cur = cur.value   # children[1:] keeps the order
                else:
                    break
            if "children" not in norm_src(cur):
                continue
            n_push += 1
            lifo = stacks[c.func.value.id]
            if c.func.attr == "extendleft":
                revs += 1
            ok_ = (revs % 2 == 1) if lifo else (revs % 2 == 0)
            col.check(ok_, "R-LIFO", conv.qualname, conv.loc(c), "siblings come off the stack in document order", f"{'LIFO' if lifo else 'FIFO'}, {revs} reversal(s)",
                      f"`{norm_src(c)[:80]}` pushes the siblings {'in document order' if revs % 2 == 0 else 'reversed'} onto a {'last-in-first-out list' if lifo else 'first-in-first-out queue'}: "
                      f"with two or more of them (a split with three alternatives, a branch point that also carries a comment) they are converted last-first, so nodes and ids leave document order",
                      stmt="lifo", definite=True)
    if not n_push:
        col.unresolved("R-LIFO", conv.qualname, conv.loc(), "siblings come off the stack in document order", "no push of a node's children onto the explicit stack recognised", stmt="lifo")
    col.text_group("R-ORDER", conv.qualname, conv, [
        ("children are pushed in reverse so that the first child is popped first (document order)",
         ["stack.extend(((n, pid, typee) for n in reversed(root.children)))"], "order"),
        ("x, y, z, r of the point ...", ["x, y, z, r = root.value"], "unpack"),
        ("... go to the column x", ["ndata[names.x].append(x)"], "x"),
        ("... y", ["ndata[names.y].append(y)"], "y"),
        ("... z", ["ndata[names.z].append(z)"], "z"),
        ("... r", ["ndata[names.r].append(r)"], "r"),
    ], fixed=("names",))
    # a table keyed by the point's value (coordinates) cannot identify a point: equal points collide
    for n in own_nodes(conv):
        tg = n.targets if isinstance(n, ast.Assign) else []
        for t in tg:
            if isinstance(t, ast.Subscript) and norm_src(t.slice).endswith(".value"):
                col.bad("R-COUNTER", conv.qualname, conv.loc(n), "the recorded parent is the id handed down in the frame",
                        f"`{norm_src(n)}` files ids under the point's value (x, y, z, r): two points with equal coordinates share one key, "
                        f"so a later alternative is attached to the wrong one of them", stmt="pidcol", definite=True)
    pn = repo.get_def(f"{PARSER}._parse_node")
    col.text_group("R-POINT", pn.qualname, pn, [
        ("first number", ["t1 = self._assert_and_cunsume(TokenType.FLOAT)"], "f1"),
        ("second number", ["t2 = self._assert(self.next_token, TokenType.FLOAT)", "t2 = self._assert_and_cunsume(TokenType.FLOAT)"], "f2"),
        ("third number", ["t3 = self._assert(self.next_token, TokenType.FLOAT)", "t3 = self._assert_and_cunsume(TokenType.FLOAT)"], "f3"),
        ("fourth number", ["t4 = self._assert(self.next_token, TokenType.FLOAT)", "t4 = self._assert_and_cunsume(TokenType.FLOAT)"], "f4"),
        ("closing bracket", ["t5 = self._assert_and_cunsume(TokenType.BRACKET_RIGHT)"], "close"),
        ("the four numbers are stored in reading order as x, y, z, r", ["x, y, z, r = t1.value, t2.value, t3.value, t4.value"], "xyzr"),
        ("the point record is built as (x, y, z, r)", ["node = ASTNode(ASTType.NODE, ASCNode(x, y, z, r), tokens=_any)"], "record"),
        ("a point becomes a child of the point it follows", ["root.add_child(node)"], "attach"),
        ("... and is the new chain end", ["return node"], "ret"),
    ], fixed=("TokenType", "ASTNode", "ASTType", "ASCNode"))
    sub = repo.get_def(f"{PARSER}._parse_subtree")
    col.text_group("R-POINT", sub.qualname, sub, [
        ("consecutive points chain: each point hangs on the previous one", ["current = self._parse_node(current)"], "chain"),
        ("a split remembers the point it hangs on", ["splits.append(current)"], "split-open"),
        ("each alternative restarts from the point before the split", ["current = splits[-1]"], "alt"),
        ("after the split the chain resumes from that point", ["current = splits.pop()"], "split-close"),
    ])
    pp = repo.get_def(f"{PARSER}._parse")
    col.text_group("R-LABEL", pp.qualname, pp, [
        ("labels are compared case-folded", ["match str.upper(token.value):\n    case 'AXON' | 'DENDRITE':\n        self._parse_tree(root)\n    case 'COLOR':\n        self._parse_color(root)\n    case _:\n        raise LiteralTokenError(token, _any)"], "labels"),
        ("the document's closing bracket is required", ["token = self._assert_and_cunsume(TokenType.BRACKET_RIGHT)"], "doc-close"),
    ], fixed=("TokenType", "LiteralTokenError"))


def lexer_lines(ctx, col):
    """Comments: the rest of the line is consumed, and nothing else."""
    repo = ctx.repo
    d = repo.get_def(f"{LEXER}._read_line")
    col.text_group("R-LEX", d.qualname, d, [
        ("the rest of the current line is read only when the line is not over yet; an empty comment consumes nothing more",
         ["if self.next_char != '\\n':\n    line = self.r.readline()\n    line = self.next_char + line\n    if line.endswith('\\n'):\n        line = line[:-1]\nelse:\n    line = ''"], "ln:rest"),
        ("the position moves to the start of the next line", ["self.lineno += 1"], "ln:lineno"),
        ("...", ["self.column = 1"], "ln:col"),
        ("the first character of the next line is buffered", ["self.next_char = self.r.read(1)"], "ln:next"),
        ("the comment text is returned", ["return line"], "ln:ret")])
    # control dependence: a readline() must be under the test that the current line is not over
    for c in own_nodes(d):
        if isinstance(c, ast.Call) and isinstance(c.func, ast.Attribute) and c.func.attr == "readline":
            x, guarded = repo.parent(c), False
            while x is not None and x is not d.node:
                if isinstance(x, ast.If) and "next_char" in norm_src(x.test) and ("'\\n'" in norm_src(x.test) or '"\\n"' in norm_src(x.test)):
                    guarded = True
                x = repo.parent(x)
            col.check(guarded, "R-LEX", d.qualname, d.loc(c), "the stream is read on only when the comment's line is not over",
                      "", f"`{norm_src(c)}` is executed whether or not the buffered character already ends the line: after an empty comment (`;` at the end of a line) "
                      f"it swallows the whole next line of the document", stmt="ln:readline-guard", definite=True)


def colour_marker(ctx, col):
    """A colour marker is read and left out: it never becomes the point that later points hang on."""
    repo = ctx.repo
    col.rule("R-COLOURLINK", "a colour marker never becomes the chain end: the result of `_parse_color` (or of a helper that hands it back) is not bound to the variable the "
             "next points hang on -- the conversion skips a COLOR node together with everything below it (zero expected)", floor=1)
    # helper methods that hand a colour node back to their caller (`return self._parse_color(root)` on some path), transitively
    P = repo.get_class(PARSER)
    hands_back = {"_parse_color"}
    for _ in range(3):
        for m_ in P.methods.values():
            if m_.is_lambda or m_.name in hands_back:
                continue
            if any(isinstance(r_, ast.Return) and isinstance(r_.value, ast.Call) and isinstance(r_.value.func, ast.Attribute) and r_.value.func.attr in hands_back for r_ in own_nodes(m_)):
                hands_back.add(m_.name)
    for q in ("_parse_subtree", "_parse_tree", "_parse"):
        d = repo.get_def(f"{PARSER}.{q}")
        for a in own_nodes(d):
            if isinstance(a, (ast.Assign, ast.AnnAssign, ast.NamedExpr)) and isinstance(getattr(a, "value", None), ast.Call) \
                    and isinstance(a.value.func, ast.Attribute) and a.value.func.attr in hands_back:
                col.bad("R-COLOURLINK", d.qualname, d.loc(a), "a colour marker does not become a link of the point chain",
                        f"`{norm_src(a)[:70]}` makes the colour node the current chain end: the points that follow hang below a COLOR node, which the conversion "
                        f"skips together with everything below it", stmt="colour-rebinding", definite=True)
        n = sum(1 for c in own_nodes(d) if isinstance(c, ast.Call) and isinstance(c.func, ast.Attribute) and c.func.attr == "_parse_color")
        if n:
            col.ok("R-COLOURLINK", d.qualname, d.loc(), "colour markers are parsed for their brackets only", f"{n} call(s), result not kept", stmt="colour-calls")
