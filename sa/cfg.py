"""E3 -- statement-level control-flow graph for one def.

Nodes carry the AST statement (or the test expression of a branch); edges carry a
label.  The graph is small (one def), so everything is plain dicts.
"""

from __future__ import annotations

import ast
from dataclasses import dataclass, field
from typing import Callable, Iterable, Iterator, Optional


@dataclass(eq=False)
class Node:
    id: int
    kind: str  # entry exit raise stmt test loop with_enter with_exit with_exc handler match case join
    ast: Optional[ast.AST] = None
    note: str = ""

    def __repr__(self) -> str:
        s = ""
        if self.ast is not None:
            try:
                s = " ".join(ast.unparse(self.ast).split())[:60]
            except Exception:
                s = type(self.ast).__name__
        return f"<{self.id}:{self.kind}{' ' + self.note if self.note else ''} {s}>"

    @property
    def lineno(self) -> int:
        return getattr(self.ast, "lineno", 0)


class CFG:
    def __init__(self, body: list[ast.stmt], name: str = ""):
        self.name = name
        self.nodes: list[Node] = []
        self.succ: dict[Node, list[tuple[Node, str]]] = {}
        self.pred: dict[Node, list[tuple[Node, str]]] = {}
        self.entry = self._new("entry")
        self.exit = self._new("exit")  # normal return (incl. fall off the end)
        self.raise_exit = self._new("raise")  # exception leaves the def
        self._loops: list[tuple[Node, Node]] = []  # (continue target, break target)
        self._handlers: list[list] = []  # stack of handler frames
        self.stmt_node: dict[int, Node] = {}
        ends = self._seq(body, [(self.entry, "")])
        for n, l in ends:
            self._edge(n, self.exit, l or "fall")

    # ------------------------------------------------------------ construction
    def _new(self, kind, a=None, note="") -> Node:
        n = Node(len(self.nodes), kind, a, note)
        self.nodes.append(n)
        self.succ[n] = []
        self.pred[n] = []
        if a is not None and kind in ("stmt", "test", "loop", "with_enter", "match"):
            self.stmt_node.setdefault(id(a), n)
        return n

    def _edge(self, a: Node, b: Node, label: str = "") -> None:
        if (b, label) not in self.succ[a]:
            self.succ[a].append((b, label))
            self.pred[b].append((a, label))

    def _connect(self, froms, to: Node) -> None:
        for n, l in froms:
            self._edge(n, to, l)

    def _exc_target(self) -> list[Node]:
        """Where an exception raised here goes first."""
        if self._handlers:
            return [self._handlers[-1]]
        return [self.raise_exit]

    def _seq(self, body, froms):
        cur = froms
        for st in body:
            if not cur:
                # unreachable code still gets nodes (for lookups) but no in-edges
                cur = []
            cur = self._stmt(st, cur)
        return cur

    def _may_raise(self, n: Node) -> None:
        """Add an 'exc' edge from n to the innermost dispatcher (only inside try/with)."""
        if self._handlers:
            self._edge(n, self._handlers[-1], "exc")

    def _stmt(self, st, froms):
        if isinstance(st, ast.If):
            t = self._new("test", st.test)
            self.stmt_node[id(st)] = t
            self._connect(froms, t)
            self._may_raise(t)
            a = self._seq(st.body, [(t, "true")])
            b = self._seq(st.orelse, [(t, "false")]) if st.orelse else [(t, "false")]
            return a + b
        if isinstance(st, (ast.For, ast.AsyncFor)):
            h = self._new("loop", st, "for")
            self._connect(froms, h)
            self._may_raise(h)
            after = self._new("join", None, "for-exit")
            self._loops.append((h, after))
            ends = self._seq(st.body, [(h, "iter")])
            self._loops.pop()
            self._connect(ends, h)
            if st.orelse:
                e2 = self._seq(st.orelse, [(h, "done")])
                self._connect(e2, after)
            else:
                self._edge(h, after, "done")
            return [(after, "")]
        if isinstance(st, ast.While):
            t = self._new("test", st.test, "while")
            self.stmt_node[id(st)] = t
            self._connect(froms, t)
            self._may_raise(t)
            after = self._new("join", None, "while-exit")
            self._loops.append((t, after))
            ends = self._seq(st.body, [(t, "true")])
            self._loops.pop()
            self._connect(ends, t)
            const_true = isinstance(st.test, ast.Constant) and bool(st.test.value)
            if not const_true:
                if st.orelse:
                    e2 = self._seq(st.orelse, [(t, "false")])
                    self._connect(e2, after)
                else:
                    self._edge(t, after, "false")
            return [(after, "")] if self.pred[after] else []
        if isinstance(st, ast.Break):
            n = self._new("stmt", st)
            self._connect(froms, n)
            self._edge(n, self._loops[-1][1] if self._loops else self.exit, "break")
            return []
        if isinstance(st, ast.Continue):
            n = self._new("stmt", st)
            self._connect(froms, n)
            self._edge(n, self._loops[-1][0] if self._loops else self.exit, "continue")
            return []
        if isinstance(st, ast.Return):
            n = self._new("stmt", st)
            self._connect(froms, n)
            self._may_raise(n)
            # finally blocks are traversed by the frame machinery below
            self._edge(n, self._return_target(), "return")
            return []
        if isinstance(st, ast.Raise):
            n = self._new("stmt", st)
            self._connect(froms, n)
            for t in self._exc_target():
                self._edge(n, t, "raise")
            return []
        if isinstance(st, ast.Assert):
            n = self._new("stmt", st)
            self._connect(froms, n)
            for t in self._exc_target():
                self._edge(n, t, "assert-fail")
            return [(n, "")]
        if isinstance(st, ast.Try):
            return self._try(st, froms)
        if isinstance(st, (ast.With, ast.AsyncWith)):
            return self._with(st, froms)
        if isinstance(st, ast.Match):
            m = self._new("match", st)
            self._connect(froms, m)
            self._may_raise(m)
            outs = []
            prev = [(m, "")]
            exhaustive = False
            for case in st.cases:
                c = self._new("case", case.pattern, "guard" if case.guard else "")
                c.case = case  # type: ignore[attr-defined]
                self._connect(prev, c)
                outs += self._seq(case.body, [(c, "match")])
                prev = [(c, "nomatch")]
                if _irrefutable(case):
                    exhaustive = True
                    break
            if not exhaustive:
                outs += prev
            return outs
        if isinstance(st, (ast.FunctionDef, ast.AsyncFunctionDef, ast.ClassDef)):
            n = self._new("stmt", st, "def")
            self._connect(froms, n)
            return [(n, "")]
        # simple statement
        n = self._new("stmt", st)
        self._connect(froms, n)
        self._may_raise(n)
        return [(n, "")]

    _return_frames: list = []

    def _return_target(self) -> Node:
        return self.exit

    def _try(self, st: ast.Try, froms):
        disp = self._new("handler", st, "dispatch")
        after_all = []
        # body
        self._handlers.append(disp)
        body_ends = self._seq(st.body, froms)
        self._handlers.pop()
        if st.orelse:
            body_ends = self._seq(st.orelse, body_ends)
        after_all += body_ends
        # handlers
        catch_all = False
        for h in st.handlers:
            hn = self._new("handler", h, "except")
            self._edge(disp, hn, "caught")
            ends = self._seq(h.body, [(hn, "")])
            after_all += ends
            if h.type is None or (isinstance(h.type, ast.Name) and h.type.id == "BaseException"):
                catch_all = True
        if not catch_all:
            for t in self._exc_target():
                self._edge(disp, t, "uncaught")
        if st.finalbody:
            # simplified: the finally body runs on the normal continuation only;
            # exceptional continuation is not distinguished (repo has one such use).
            after_all = self._seq(st.finalbody, after_all)
        return after_all

    def _with(self, st, froms):
        w = self._new("with_enter", st)
        self._connect(froms, w)
        self._may_raise(w)
        wexc = self._new("with_exc", st)
        self._handlers.append(wexc)
        ends = self._seq(st.body, [(w, "")])
        self._handlers.pop()
        wexit = self._new("with_exit", st)
        self._connect(ends, wexit)
        # __exit__ with an exception: either propagates or is suppressed
        for t in self._exc_target():
            self._edge(wexc, t, "propagate")
        self._edge(wexc, wexit, "suppress")
        # return/break inside with also run __exit__ but keep their target: ignored
        return [(wexit, "")]

    # ------------------------------------------------------------ queries
    def node_of(self, a: ast.AST) -> Optional[Node]:
        return self.stmt_node.get(id(a))

    def reachable(self, start: Node, blocked: Callable[[Node], bool] = lambda n: False,
                  edge_ok: Callable[[Node, Node, str], bool] = lambda a, b, l: True) -> set:
        seen = set()
        stack = [start]
        while stack:
            n = stack.pop()
            if n in seen:
                continue
            seen.add(n)
            for m, l in self.succ[n]:
                if m not in seen and not blocked(m) and edge_ok(n, m, l):
                    stack.append(m)
        return seen

    def must_pass(self, start: Node, targets: Iterable[Node], pred: Callable[[Node], bool],
                  edge_ok=lambda a, b, l: True) -> bool:
        """Every path start ->* any(targets) passes through a node satisfying pred
        (start itself counts)."""
        if pred(start):
            return True
        r = self.reachable(start, blocked=pred, edge_ok=edge_ok)
        return not any(t in r for t in targets)

    def dominators(self, edge_ok=lambda a, b, l: True) -> dict:
        nodes = [n for n in self.nodes]
        reach = self.reachable(self.entry, edge_ok=edge_ok)
        dom = {n: set(reach) for n in reach}
        dom[self.entry] = {self.entry}
        changed = True
        order = [n for n in nodes if n in reach]
        while changed:
            changed = False
            for n in order:
                if n is self.entry:
                    continue
                ps = [p for p, l in self.pred[n] if p in reach and edge_ok(p, n, l)]
                if not ps:
                    continue
                new = set.intersection(*(dom[p] for p in ps)) | {n}
                if new != dom[n]:
                    dom[n] = new
                    changed = True
        return dom

    def dominates(self, a: Node, b: Node, edge_ok=lambda a, b, l: True) -> bool:
        key = id(edge_ok)
        cache = self.__dict__.setdefault("_domcache", {})
        if key not in cache:
            cache[key] = self.dominators(edge_ok)
        return a in cache[key].get(b, set())

    def paths(self, start: Node, ends: Iterable[Node], max_visits: int = 2, cap: int = 20000,
              edge_ok=lambda a, b, l: True) -> Iterator[list[tuple[Node, str]]]:
        """Enumerate paths (each node visited at most max_visits times)."""
        ends = set(ends)
        count = [0]
        path: list[tuple[Node, str]] = []
        visits: dict[Node, int] = {}

        def rec(n: Node, label: str):
            if count[0] >= cap:
                return
            path.append((n, label))
            visits[n] = visits.get(n, 0) + 1
            if n in ends:
                count[0] += 1
                yield list(path)
            else:
                for m, l in self.succ[n]:
                    if visits.get(m, 0) < max_visits and edge_ok(n, m, l):
                        yield from rec(m, l)
            visits[n] -= 1
            path.pop()

        yield from rec(start, "")
        self.last_path_count = count[0]
        self.path_cap_hit = count[0] >= cap


def _irrefutable(case: ast.match_case) -> bool:
    if case.guard is not None:
        return False
    p = case.pattern
    if isinstance(p, ast.MatchAs) and p.pattern is None:
        return True
    if isinstance(p, ast.MatchOr):
        return any(isinstance(x, ast.MatchAs) and x.pattern is None for x in p.patterns)
    return False


def no_exc(a, b, l) -> bool:
    """Edge filter: ignore implicit may-raise edges (keep explicit raise)."""
    return l != "exc"


def build(d) -> CFG:
    return CFG(d.body, getattr(d, "qualname", ""))
