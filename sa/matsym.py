"""Symbolic 4x4 homogeneous matrices over exact rational functions (sa/poly.py).

Used to decide *by value* what a sequence of statements builds out of the stored matrix M of an affine transform and a centre c: the entries of the result are
polynomials in the entries of M (a_ij, t_i; bottom row 0 0 0 1) and in c0, c1, c2, and are compared with those of T(c) . M . T(-c).  Supported: translate3d(...)
with component arguments, `.dot` / `@` / np.dot / np.matmul (matrix.matrix, matrix.vector), copies (`.copy()`, np.array, np.asarray, astype), np.identity / np.eye,
block reads `m[:3, :3]`, `m[:3, 3]`, element and component reads, block / element stores with `=`, `+=`, `-=`, vector arithmetic.  Anything else raises Unsupported.
"""
from __future__ import annotations

import ast
from fractions import Fraction

from .model import dotted, norm_src
from .poly import R


class Unsupported(Exception):
    pass


def S(n):
    return R.sym(n)


def C(v):
    return R.const(Fraction(v))


class Mat:
    def __init__(self, rows):
        self.rows = [list(r) for r in rows]

    @property
    def shape(self):
        return (len(self.rows), len(self.rows[0]))

    def copy(self):
        return Mat(self.rows)


class Vec:
    def __init__(self, xs):
        self.xs = list(xs)

    def copy(self):
        return Vec(self.xs)


def identity(n=4):
    return Mat([[C(1) if i == j else C(0) for j in range(n)] for i in range(n)])


def affine_symbol(prefix="a", tprefix="t"):
    rows = [[S(f"{prefix}{i}{j}") for j in range(3)] + [S(f"{tprefix}{i}")] for i in range(3)]
    rows.append([C(0), C(0), C(0), C(1)])
    return Mat(rows)


def translate(v):
    m = identity(4)
    for i in range(3):
        m.rows[i][3] = v[i]
    return m


def matmul(a, b):
    if isinstance(a, Mat) and isinstance(b, Mat):
        if a.shape[1] != b.shape[0]:
            raise Unsupported("matrix shapes")
        return Mat([[_sum(a.rows[i][k] * b.rows[k][j] for k in range(a.shape[1])) for j in range(b.shape[1])] for i in range(a.shape[0])])
    if isinstance(a, Mat) and isinstance(b, Vec):
        if a.shape[1] != len(b.xs):
            raise Unsupported("matrix.vector shapes")
        return Vec([_sum(a.rows[i][k] * b.xs[k] for k in range(len(b.xs))) for i in range(a.shape[0])])
    raise Unsupported("product operands")


def _sum(it):
    out = C(0)
    for x in it:
        out = out + x
    return out


def same(a, b) -> bool:
    if isinstance(a, Mat) and isinstance(b, Mat) and a.shape == b.shape:
        return all(x.same(y) for ra, rb in zip(a.rows, b.rows) for x, y in zip(ra, rb))
    if isinstance(a, Vec) and isinstance(b, Vec) and len(a.xs) == len(b.xs):
        return all(x.same(y) for x, y in zip(a.xs, b.xs))
    return False


def _ix(e):
    """index expression -> int | ('slice', lo, hi)"""
    if isinstance(e, ast.Constant) and isinstance(e.value, int):
        return e.value
    if isinstance(e, ast.UnaryOp) and isinstance(e.op, ast.USub) and isinstance(e.operand, ast.Constant):
        return -e.operand.value
    if isinstance(e, ast.Slice) and e.step is None:
        lo = _ix(e.lower) if e.lower is not None else None
        hi = _ix(e.upper) if e.upper is not None else None
        if (lo is None or isinstance(lo, int)) and (hi is None or isinstance(hi, int)):
            return ("slice", lo, hi)
    raise Unsupported(f"index {norm_src(e)}")


def _rng(ix, n):
    if isinstance(ix, int):
        return [ix % n]
    _, lo, hi = ix
    return list(range(n))[slice(lo, hi)]


class Eval:
    def __init__(self, env):
        self.env = dict(env)

    def ev(self, e):
        if isinstance(e, ast.Constant) and isinstance(e.value, (int, float)) and not isinstance(e.value, bool):
            return C(str(e.value)) if isinstance(e.value, float) else C(e.value)
        dn = dotted(e)
        if dn is not None and dn in self.env:
            v = self.env[dn]
            return v
        if isinstance(e, ast.Name):
            raise Unsupported(f"unbound {e.id}")
        if isinstance(e, ast.UnaryOp) and isinstance(e.op, ast.USub):
            v = self.ev(e.operand)
            return self._scale(v, C(-1))
        if isinstance(e, ast.BinOp):
            if isinstance(e.op, ast.MatMult):
                return matmul(self.ev(e.left), self.ev(e.right))
            a, b = self.ev(e.left), self.ev(e.right)
            return self._arith(e.op, a, b)
        if isinstance(e, ast.Subscript):
            base = self.ev(e.value)
            return self._read(base, e.slice)
        if isinstance(e, ast.Attribute) and e.attr == "T":
            m = self.ev(e.value)
            if isinstance(m, Mat):
                return Mat([[m.rows[j][i] for j in range(m.shape[0])] for i in range(m.shape[1])])
            return m
        if isinstance(e, ast.Call):
            fn = dotted(e.func) or ""
            last = fn.rsplit(".", 1)[-1] if fn else (e.func.attr if isinstance(e.func, ast.Attribute) else "")
            if last == "translate3d" and len(e.args) == 3:
                return translate([self._scalar(self.ev(a)) for a in e.args])
            if last in ("identity", "eye") and e.args and isinstance(e.args[0], ast.Constant):
                return identity(e.args[0].value)
            if last in ("dot", "matmul") and isinstance(e.func, ast.Attribute) and not fn.startswith(("np.", "numpy.")) and len(e.args) == 1:
                return matmul(self.ev(e.func.value), self.ev(e.args[0]))
            if last in ("dot", "matmul") and len(e.args) == 2:
                return matmul(self.ev(e.args[0]), self.ev(e.args[1]))
            if last == "multi_dot" and len(e.args) == 1 and isinstance(e.args[0], (ast.List, ast.Tuple)):
                ms = [self.ev(x) for x in e.args[0].elts]
                out = ms[0]
                for m in ms[1:]:
                    out = matmul(out, m)
                return out
            if last in ("copy", "astype") and isinstance(e.func, ast.Attribute) and not fn.startswith(("np.", "numpy.")):
                v = self.ev(e.func.value)
                return v.copy() if isinstance(v, (Mat, Vec)) else v
            if last in ("array", "asarray", "asanyarray", "copy") and e.args:
                v = self.ev(e.args[0])
                return v.copy() if isinstance(v, (Mat, Vec)) else v
            if last in ("float", "item"):
                return self.ev(e.args[0] if e.args else e.func.value)
            raise Unsupported(f"call {fn or last}")
        if isinstance(e, (ast.Tuple, ast.List)):
            xs = [self.ev(x) for x in e.elts]
            if all(isinstance(x, R) for x in xs):
                return Vec(xs)
        raise Unsupported(f"expression {type(e).__name__}")

    @staticmethod
    def _scalar(v):
        if isinstance(v, R):
            return v
        raise Unsupported("scalar expected")

    def _scale(self, v, k):
        if isinstance(v, R):
            return v * k
        if isinstance(v, Vec):
            return Vec([x * k for x in v.xs])
        if isinstance(v, Mat):
            return Mat([[x * k for x in r] for r in v.rows])
        raise Unsupported("scale")

    def _arith(self, op, a, b):
        f = {ast.Add: lambda x, y: x + y, ast.Sub: lambda x, y: x - y, ast.Mult: lambda x, y: x * y, ast.Div: lambda x, y: x / y}.get(type(op))
        if f is None:
            raise Unsupported("operator")
        if isinstance(a, R) and isinstance(b, R):
            return f(a, b)
        if isinstance(a, Vec) and isinstance(b, Vec) and len(a.xs) == len(b.xs):
            return Vec([f(x, y) for x, y in zip(a.xs, b.xs)])
        if isinstance(a, Vec) and isinstance(b, R):
            return Vec([f(x, b) for x in a.xs])
        if isinstance(a, R) and isinstance(b, Vec):
            return Vec([f(a, y) for y in b.xs])
        if isinstance(a, Mat) and isinstance(b, Mat) and a.shape == b.shape and isinstance(op, (ast.Add, ast.Sub)):
            return Mat([[f(x, y) for x, y in zip(ra, rb)] for ra, rb in zip(a.rows, b.rows)])
        if isinstance(a, Mat) and isinstance(b, R):
            return Mat([[f(x, b) for x in r] for r in a.rows])
        raise Unsupported("arithmetic operands")

    def _read(self, base, sl):
        if isinstance(base, Vec):
            ix = _ix(sl)
            if isinstance(ix, int):
                return base.xs[ix]
            return Vec([base.xs[i] for i in _rng(ix, len(base.xs))])
        if isinstance(base, Mat):
            if isinstance(sl, ast.Tuple) and len(sl.elts) == 2:
                ri, ci = _ix(sl.elts[0]), _ix(sl.elts[1])
                rows, cols = _rng(ri, base.shape[0]), _rng(ci, base.shape[1])
                if isinstance(ri, int) and isinstance(ci, int):
                    return base.rows[rows[0]][cols[0]]
                if isinstance(ci, int):
                    return Vec([base.rows[r][cols[0]] for r in rows])
                if isinstance(ri, int):
                    return Vec([base.rows[rows[0]][c] for c in cols])
                return Mat([[base.rows[r][c] for c in cols] for r in rows])
            ix = _ix(sl)
            if isinstance(ix, int):
                return Vec(base.rows[ix])
        raise Unsupported("subscript")

    def store(self, target, value, op=None):
        if isinstance(target, ast.Name):
            if op is not None:
                value = self._arith(op, self.ev(target), value)
            self.env[target.id] = value
            return
        if isinstance(target, ast.Subscript) and isinstance(target.value, ast.Name):
            base = self.env.get(target.value.id)
            if not isinstance(base, Mat) or not isinstance(target.slice, ast.Tuple) or len(target.slice.elts) != 2:
                raise Unsupported("store target")
            ri, ci = _ix(target.slice.elts[0]), _ix(target.slice.elts[1])
            rows, cols = _rng(ri, base.shape[0]), _rng(ci, base.shape[1])
            cur = self._read(base, target.slice)
            new = self._arith(op, cur, value) if op is not None else value
            if isinstance(new, R):
                if len(rows) * len(cols) != 1:
                    for r in rows:
                        for c in cols:
                            base.rows[r][c] = new
                else:
                    base.rows[rows[0]][cols[0]] = new
            elif isinstance(new, Vec):
                cells = [(r, c) for r in rows for c in cols]
                if len(cells) != len(new.xs):
                    raise Unsupported("store shapes")
                for (r, c), x in zip(cells, new.xs):
                    base.rows[r][c] = x
            elif isinstance(new, Mat):
                if (len(rows), len(cols)) != new.shape:
                    raise Unsupported("store shapes")
                for i, r in enumerate(rows):
                    for j, c in enumerate(cols):
                        base.rows[r][c] = new.rows[i][j]
            else:
                raise Unsupported("stored value")
            return
        raise Unsupported("store target")

    def run(self, stmts):
        for s in stmts:
            if isinstance(s, ast.Assign) and len(s.targets) == 1:
                self.store(s.targets[0], self.ev(s.value))
            elif isinstance(s, ast.AugAssign):
                self.store(s.target, self.ev(s.value), s.op)
            elif isinstance(s, ast.Expr) and isinstance(s.value, ast.Constant):
                continue
            else:
                raise Unsupported(f"statement {type(s).__name__}")
