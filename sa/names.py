"""Local names are not part of a program's behaviour: every function is brought to the local names the rules were
written with (the names of the tree on which the rule instances were confirmed, sa/reference/locals.json), by an
injective renaming of its locals -- so the analysed program is alpha-equivalent to the source, whatever the source
calls its locals.  Locals that correspond to nothing in the reference (temporaries a later edit introduced) get
fresh names and, when they are bound once and read once in the very next statement, are substituted away.

The reference only *translates* names; it decides nothing.  A function that is not in the reference (a new helper)
is left as it is.

Correspondence of a function's locals with the reference's: by the shape of the first binding of each local (the
binding statement with every local name blanked), k-th occurrence to k-th occurrence; a local left over that has kept
its name corresponds to itself; everything else is new.
"""

from __future__ import annotations

import ast
import hashlib
import json
import os
from typing import Optional

_FN = (ast.FunctionDef, ast.AsyncFunctionDef)
_REF: Optional[dict] = None
REF_PATH = os.path.join(os.path.dirname(os.path.abspath(__file__)), "reference", "locals.json")


def reference() -> dict:
    global _REF
    if _REF is None:
        try:
            with open(REF_PATH, encoding="utf-8") as f:
                _REF = json.load(f)
        except FileNotFoundError:
            _REF = {}
    return _REF


# ------------------------------------------------------------------ scopes

def params_of(fn) -> list:
    a = fn.args
    out = [x.arg for x in a.posonlyargs + a.args]
    if a.vararg:
        out.append(a.vararg.arg)
    out += [x.arg for x in a.kwonlyargs]
    if a.kwarg:
        out.append(a.kwarg.arg)
    return out


def own_nodes_ordered(fn):
    """nodes of fn's own scope in source order (nested defs / lambdas / classes are yielded but not entered)"""
    def rec(n):
        for ch in ast.iter_child_nodes(n):
            yield ch
            if isinstance(ch, _FN + (ast.Lambda, ast.ClassDef)):
                continue
            yield from rec(ch)
    # arguments' defaults belong to the enclosing scope; the body is what matters here
    for s in fn.body:
        yield s
        if isinstance(s, _FN + (ast.ClassDef,)):
            continue
        yield from rec(s)


def _declared(fn, kind) -> set:
    out = set()
    for n in own_nodes_ordered(fn):
        if isinstance(n, kind):
            out.update(n.names)
    return out


def _string_bound(fn) -> set:
    """names bound by constructs that carry the name as a string and that we do not rename"""
    out = set()
    for n in own_nodes_ordered(fn):
        if isinstance(n, (ast.MatchAs, ast.MatchStar)) and n.name:
            out.add(n.name)
        elif isinstance(n, ast.MatchMapping) and n.rest:
            out.add(n.rest)
        elif isinstance(n, ast.alias):
            out.add((n.asname or n.name).split(".")[0])
        elif isinstance(n, ast.ExceptHandler) and n.name:
            out.add(n.name)
        elif isinstance(n, ast.ClassDef):
            out.add(n.name)
    return out


def locals_of(fn, nested: bool) -> list:
    """[(name, first binding node, enclosing statement)] in order of first binding.
    For a nested function its parameters count as locals (it is only ever called by its enclosing function or handed
    to a traversal as a callback); nested defs count as locals of the enclosing function."""
    skip = _declared(fn, ast.Global) | _declared(fn, ast.Nonlocal) | _string_bound(fn)
    pars = params_of(fn)
    seen, out = set(), []
    if nested:
        for k, p in enumerate(pars):
            if p not in seen and p not in ("self", "cls"):
                seen.add(p)
                out.append((p, ("param", k), None))
    cur_stmt = [None]
    for n in own_nodes_ordered(fn):
        if isinstance(n, ast.stmt):
            cur_stmt[0] = n
        if isinstance(n, _FN):
            if n.name not in seen and n.name not in skip and n.name not in pars:
                seen.add(n.name)
                out.append((n.name, n, n))
        elif isinstance(n, ast.Name) and isinstance(n.ctx, ast.Store):
            if n.id not in seen and n.id not in skip and n.id not in pars and not n.id.startswith("__"):
                seen.add(n.id)
                out.append((n.id, n, cur_stmt[0]))
    return out


class _Blank(ast.NodeTransformer):
    def __init__(self, names, mark):
        self.names, self.mark = names, mark

    def visit_Name(self, n):
        if n is self.mark:
            return ast.Name(id="__THIS__", ctx=n.ctx)
        if n.id in self.names:
            return ast.Name(id="_", ctx=n.ctx)
        return n

    def visit_arg(self, n):
        if n.arg in self.names:
            n.arg = "_"
        return n

    def visit_FunctionDef(self, n):
        n.name = "_" if n.name in self.names else n.name
        self.generic_visit(n)
        return n


def _inner_bound(node) -> set:
    """names bound by lambdas and comprehensions inside node: private to them, so never part of a signature"""
    out = set()
    for n in ast.walk(node):
        if isinstance(n, ast.Lambda):
            a = n.args
            out |= {x.arg for x in a.posonlyargs + a.args + a.kwonlyargs}
            if a.vararg:
                out.add(a.vararg.arg)
            if a.kwarg:
                out.add(a.kwarg.arg)
        elif isinstance(n, (ast.ListComp, ast.SetComp, ast.DictComp, ast.GeneratorExp)):
            for g in n.generators:
                out |= {x.id for x in ast.walk(g.target) if isinstance(x, ast.Name)}
    return out


def _head_only(stmt):
    """compound statements are reduced to their header (the body is somebody else's business)"""
    import copy
    s = copy.copy(stmt)
    for f in ("body", "orelse", "finalbody", "handlers"):
        if isinstance(getattr(s, f, None), list):
            setattr(s, f, [])
    return s


def signatures(fn, nested: bool) -> list:
    """[(name, signature)] -- the signature does not depend on any local's name"""
    import copy
    locs = locals_of(fn, nested)
    names = {n for n, _, _ in locs}
    out = []
    for name, node, stmt in locs:
        if isinstance(node, tuple):
            sig = f"param{node[1]}"
        elif isinstance(node, _FN):
            # a nested def corresponds to a reference def only when its whole body has the same shape (or, below, its name)
            cp = copy.deepcopy(node)
            inner = {n for n, _, _ in locals_of(node, True)} | set(params_of(node))
            cp.name = "_"
            cp.returns = None
            for a_ in cp.args.posonlyargs + cp.args.args + cp.args.kwonlyargs:
                a_.annotation = None
            cp = _Blank(names | inner, None).visit(cp)
            try:
                txt = ast.unparse(cp)
            except Exception:  # noqa: BLE001
                txt = ast.dump(cp)
            sig = "def/" + hashlib.sha1(" ".join(txt.split()).encode()).hexdigest()[:12]
        else:
            # deep-copy with an id map so that the marked node can be found in the copy
            head = _head_only(stmt)
            mark_path = _path_to(head, node)
            cp = copy.deepcopy(head)
            mark = _follow(cp, mark_path) if mark_path is not None else None
            cp = _Blank(names | _inner_bound(cp), mark).visit(cp)
            try:
                txt = ast.unparse(cp)
            except Exception:  # noqa: BLE001
                txt = ast.dump(cp)
            sig = hashlib.sha1(" ".join(txt.split()).encode()).hexdigest()[:12]
        out.append((name, sig, None))
    # the usage signature only matters where the binding signature does not single out a local
    from collections import Counter
    dup = {s_ for s_, c in Counter(x[1] for x in out).items() if c > 1}
    return [(n, s_, _usage_sig(fn, n, names) if s_ in dup else None) for n, s_, _ in out]


def _usage_sig(fn, name, names) -> str:
    """how the local is used: the multiset of (headers of the) statements it occurs in, it marked, every other local blanked"""
    import copy
    texts = []
    for st in own_nodes_ordered(fn):
        if not isinstance(st, ast.stmt):
            continue
        head = _head_only(st)
        if not any(isinstance(n, ast.Name) and n.id == name for n in ast.walk(head)):
            continue
        cp = copy.deepcopy(head)
        inner = _inner_bound(cp)

        class M(ast.NodeTransformer):
            def visit_Name(self, n):
                if n.id == name:
                    return ast.Name(id="__THIS__", ctx=n.ctx)
                if n.id in names or n.id in inner:
                    return ast.Name(id="_", ctx=n.ctx)
                return n

            def visit_arg(self, n):
                if n.arg in inner:
                    n.arg = "_"
                return n
        cp = M().visit(cp)
        try:
            texts.append(" ".join(ast.unparse(cp).split()))
        except Exception:  # noqa: BLE001
            texts.append(ast.dump(cp))
    return hashlib.sha1("\n".join(sorted(texts)).encode()).hexdigest()[:10]


def _path_to(root, target):
    """field path from root to target (identity), or None"""
    stack = [(root, [])]
    while stack:
        n, p = stack.pop()
        if n is target:
            return p
        for f, v in ast.iter_fields(n):
            if isinstance(v, ast.AST):
                stack.append((v, p + [(f, None)]))
            elif isinstance(v, list):
                for i, x in enumerate(v):
                    if isinstance(x, ast.AST):
                        stack.append((x, p + [(f, i)]))
    return None


def _follow(root, path):
    n = root
    for f, i in path:
        n = getattr(n, f)
        if i is not None:
            n = n[i]
    return n


# ------------------------------------------------------------------ renaming

class Renamer(ast.NodeTransformer):
    """rename local `old` of function `fn` to `new` throughout fn, following closures (free uses in nested functions,
    `nonlocal` declarations) and stopping where a nested scope rebinds the name"""

    def __init__(self, old, new):
        self.old, self.new = old, new

    def _shadowed(self, fn) -> bool:
        pars = params_of(fn) if not isinstance(fn, ast.Lambda) else [x.arg for x in fn.args.posonlyargs + fn.args.args + fn.args.kwonlyargs] + \
            ([fn.args.vararg.arg] if fn.args.vararg else []) + ([fn.args.kwarg.arg] if fn.args.kwarg else [])
        if self.old in pars:
            return True
        if isinstance(fn, ast.Lambda):
            return False
        if self.old in _declared(fn, ast.Nonlocal):
            return False
        if self.old in _declared(fn, ast.Global):
            return True
        for n in own_nodes_ordered(fn):
            if isinstance(n, ast.Name) and isinstance(n.ctx, (ast.Store, ast.Del)) and n.id == self.old:
                return True
            if isinstance(n, _FN) and n.name == self.old:
                return True
        return self.old in _string_bound(fn)

    def visit_FunctionDef(self, n):
        if n.name == self.old:
            n.name = self.new
        n.args.defaults = [self.visit(d) for d in n.args.defaults]
        n.args.kw_defaults = [self.visit(d) if d is not None else None for d in n.args.kw_defaults]
        n.decorator_list = [self.visit(d) for d in n.decorator_list]
        if self._shadowed(n):
            return n
        n.body = [self.visit(s) for s in n.body]
        return n

    visit_AsyncFunctionDef = visit_FunctionDef

    def visit_Lambda(self, n):
        if self._shadowed(n):
            return n
        n.body = self.visit(n.body)
        return n

    def visit_ClassDef(self, n):
        return n

    def visit_Name(self, n):
        if n.id == self.old:
            n.id = self.new
        return n

    def visit_Nonlocal(self, n):
        n.names = [self.new if x == self.old else x for x in n.names]
        return n


def rename_locals(fn, mapping: dict, nested: bool) -> None:
    """simultaneous renaming {old: new} of locals of fn (two phases, so that swaps work)"""
    mapping = {o: n for o, n in mapping.items() if o != n}
    if not mapping:
        return
    tmp = {o: f"__r{k}__" for k, o in enumerate(sorted(mapping))}
    for phase in (tmp, {tmp[o]: n for o, n in mapping.items()}):
        for old, new in phase.items():
            r = Renamer(old, new)
            if nested:
                for a in fn.args.posonlyargs + fn.args.args + fn.args.kwonlyargs + [x for x in (fn.args.vararg, fn.args.kwarg) if x]:
                    if a.arg == old:
                        a.arg = new
            fn.body = [r.visit(s) for s in fn.body]


# ------------------------------------------------------------------ per-module driver

def functions_with_qualnames(tree: ast.Module):
    """yield (qualname-within-module, fn node, nested?) outermost first; duplicates get '#k'"""
    seen = {}

    def rec(node, prefix, in_fn):
        for ch in ast.iter_child_nodes(node):
            if isinstance(ch, ast.ClassDef):
                yield from rec(ch, prefix + [ch.name], in_fn)
            elif isinstance(ch, _FN):
                q = ".".join(prefix + [ch.name])
                k = seen.get(q, 0)
                seen[q] = k + 1
                if k:
                    q = f"{q}#{k}"
                yield q, ch, in_fn
                yield from rec(ch, prefix + [ch.name, "<locals>"], True)
            elif not isinstance(ch, (ast.Lambda,)):
                yield from rec(ch, prefix, in_fn)

    yield from rec(tree, [], False)


def align(cur: list, ref: list) -> dict:
    """{current name: reference name or None}.  cur / ref: [(name, binding signature, usage signature)].
    Same binding signature: a unique candidate on both sides is the counterpart; among several, first the one with
    the same usage signature, then the one that kept its name; what is still ambiguous stays unmatched (a wrong guess
    would put a rule's name on a variable with another role)."""
    from collections import defaultdict
    cur = [(c + (None,))[:3] for c in cur]
    ref = [(tuple(r) + (None,))[:3] for r in ref]
    out = {n: None for n, _, _ in cur}
    used = set()
    rby, cby = defaultdict(list), defaultdict(list)
    for n, s_, u in ref:
        rby[s_].append((n, u))
    for n, s_, u in cur:
        cby[s_].append((n, u))
    for sig, cs in cby.items():
        rs = [x for x in rby.get(sig, [])]
        if not rs:
            continue
        if len(cs) == 1 and len(rs) == 1:
            out[cs[0][0]] = rs[0][0]
            used.add(rs[0][0])
            continue
        cs_left, rs_left = list(cs), list(rs)
        # same usage
        for c in list(cs_left):
            m = [r for r in rs_left if r[1] is not None and r[1] == c[1]]
            if len(m) == 1 and sum(1 for c2 in cs_left if c2[1] == c[1]) == 1:
                out[c[0]] = m[0][0]
                used.add(m[0][0])
                cs_left.remove(c)
                rs_left.remove(m[0])
        # kept its name
        for c in list(cs_left):
            m = [r for r in rs_left if r[0] == c[0]]
            if m:
                out[c[0]] = m[0][0]
                used.add(m[0][0])
                cs_left.remove(c)
                rs_left.remove(m[0])
        # identical on both sides in number and (lacking usage information) in order: the unchanged function
        if cs_left and len(cs_left) == len(rs_left) and all(c[1] is None or r[1] is None for c, r in zip(cs_left, rs_left)):
            for c, r in zip(cs_left, rs_left):
                out[c[0]] = r[0]
                used.add(r[0])
    left_cur = [n for n, _, _ in cur if out[n] is None]
    left_ref = [n for n, _, _ in ref if n not in used]
    # a local that kept its name corresponds to itself
    for n in list(left_cur):
        if n in left_ref:
            out[n] = n
            left_cur.remove(n)
            left_ref.remove(n)
    return out


def translate_module(tree: ast.Module, modname: str, stats: Optional[dict] = None) -> ast.Module:
    ref = reference().get(modname)
    if not ref:
        return tree
    dumps = (reference().get("__dumps__") or {}).get(modname) or {}
    # outermost functions first: a nested def renamed by its parent is then looked up under its reference name
    done = set()
    progress = True
    while progress:
        progress = False
        for q, fn, nested in list(functions_with_qualnames(tree)):
            if id(fn) in done:
                continue
            done.add(id(fn))
            progress = True
            r = ref.get(q)
            if r is None:
                continue
            if dumps.get(q) == fn_digest(fn):
                continue  # the function is the reference's, statement for statement
            cur = signatures(fn, nested)
            m = align(cur, [tuple(x) for x in r])
            mapping, k = {}, 0
            for name, _, _ in cur:
                tgt = m.get(name)
                if tgt is None:
                    if is_new_name(name):
                        tgt = name  # already translated in an earlier round
                    else:
                        # the source's own name is kept as a suffix: lints that read roles from identifiers still can
                        k += 1
                        tgt = f"_n{k}_{name.lstrip('_')}"
                mapping[name] = tgt
            if any(o != n for o, n in mapping.items()):
                rename_locals(fn, mapping, nested)
                if stats is not None:
                    stats[f"{modname}:{q}"] = {o: n for o, n in mapping.items() if o != n}
                break  # qualnames below this function may have changed: enumerate again
    return tree


def fn_digest(fn) -> str:
    return hashlib.sha1(ast.dump(fn).encode()).hexdigest()[:12]


def is_new_name(name: str) -> bool:
    """`_n<k>_<source name>`: a local without counterpart in the reference"""
    import re
    return re.match(r"_n\d+_", name) is not None


def inline_new_temporaries(tree: ast.Module) -> None:
    """locals named _n<k> (no counterpart in the reference), bound once and read once in the next statement"""
    from . import normal
    for fn in [n for n in ast.walk(tree) if isinstance(n, _FN)][::-1]:
        normal._temp_function(fn, only=is_new_name)


def make_reference(modules: dict) -> dict:
    """modules: {modname: canonical ast.Module} -> reference table"""
    out = {}
    for modname, tree in sorted(modules.items()):
        entry = {}
        for q, fn, nested in functions_with_qualnames(tree):
            entry[q] = [list(x) for x in signatures(fn, nested)]  # also functions without locals: a later temporary is then known to be new
            out.setdefault("__dumps__", {}).setdefault(modname, {})[q] = fn_digest(fn)
            if not nested:
                out.setdefault("__stmts__", {}).setdefault(modname, {})[q] = statement_hashes(fn)
            c = comparisons_of(fn)
            if c:
                out.setdefault("__cmps__", {}).setdefault(modname, {})[q] = c
        if entry:
            out[modname] = entry
    return out


# ------------------------------------------------------------------ which locals of a function are known to the reference

def _all_local_names(fn) -> set:
    """every local name of fn and of the functions nested in it (parameters of nested functions included)"""
    out = {n for n, _, _ in locals_of(fn, False)}
    for sub in ast.walk(fn):
        if isinstance(sub, _FN) and sub is not fn:
            out |= {n for n, _, _ in locals_of(sub, True)}
            out |= set(params_of(sub))
        elif isinstance(sub, ast.Lambda):
            pass  # lambda parameters, like comprehension variables, are matched structurally
        elif isinstance(sub, (ast.ListComp, ast.SetComp, ast.DictComp, ast.GeneratorExp)):
            pass  # comprehension variables are matched structurally by the matcher
    return out


def last_def_key(table: dict, qual: str) -> str:
    """a name defined several times in one scope (overloads, property getter/setter) is listed as q, q#1, q#2 ...: the model's
    def of that name is the last one"""
    k, best = 1, qual
    while f"{qual}#{k}" in table:
        best = f"{qual}#{k}"
        k += 1
    return best


def unknown_locals(fn, modname: str, qual: str) -> Optional[set]:
    """locals of fn (and of its nested functions) that have no counterpart in the reference: temporaries, helpers and
    parameters a later edit introduced.  None when the function itself is not in the reference."""
    ref = reference().get(modname)
    if ref is None or qual not in ref:
        return None
    qual = last_def_key(ref, qual)
    known = set()
    for q, lst in ref.items():
        if q == qual or q.startswith(qual + ".<locals>.") or q.startswith(qual + "#"):
            known |= {x[0] for x in lst}
            known.add(q.rsplit(".", 1)[-1].split("#")[0])
    comp = set()
    for sub in ast.walk(fn):
        if isinstance(sub, (ast.ListComp, ast.SetComp, ast.DictComp, ast.GeneratorExp)):
            for g in sub.generators:
                comp |= {x.id for x in ast.walk(g.target) if isinstance(x, ast.Name)}
    return {n for n in _all_local_names(fn) if n not in known and n not in comp}


def known_locals(modname: str, qual: str) -> set:
    """names the reference has for the function `qual` and the functions nested in it (locals, nested defs, their parameters)"""
    ref = reference().get(modname) or {}
    qual = last_def_key(ref, qual)
    known = set()
    for q, lst in ref.items():
        if q == qual or q.startswith(qual + ".<locals>.") or q.startswith(qual + "#"):
            known |= {x[0] for x in lst}
            known.add(q.rsplit(".", 1)[-1].split("#")[0])
    return known


# ------------------------------------------------------------------ orientation of comparisons

_FLIPOP = {"Lt": "Gt", "Gt": "Lt", "LtE": "GtE", "GtE": "LtE", "Eq": "Eq", "NotEq": "NotEq"}


def _cmp_key(n: ast.Compare):
    if len(n.ops) != 1 or type(n.ops[0]).__name__ not in _FLIPOP:
        return None
    return (ast.dump(n.left), type(n.ops[0]).__name__, ast.dump(n.comparators[0]))


def comparisons_of(fn) -> list:
    out = []
    for n in ast.walk(fn):
        if isinstance(n, ast.Compare):
            k = _cmp_key(n)
            if k is not None and k[0] != k[2]:
                out.append(hashlib.sha1("|".join(k).encode()).hexdigest()[:12])
    return sorted(set(out))


def orient_comparisons(tree: ast.Module, modname: str) -> None:
    """`b > a` where the reference tree's function has `a < b`: written the reference's way (after the locals carry their
    reference names).  Comparisons the reference does not have are left as written."""
    ref = (reference().get("__cmps__") or {}).get(modname)
    if not ref:
        return
    for q, fn, nested in functions_with_qualnames(tree):
        known = set(ref.get(q) or ())
        if not known:
            continue
        for n in ast.walk(fn):
            if isinstance(n, ast.Compare):
                break
        else:
            continue
        for n in ast.walk(fn):
            if isinstance(n, ast.Compare):
                k = _cmp_key(n)
                if k is None:
                    continue
                h = hashlib.sha1("|".join(k).encode()).hexdigest()[:12]
                if h in known:
                    continue
                sw = (k[2], _FLIPOP[k[1]], k[0])
                if hashlib.sha1("|".join(sw).encode()).hexdigest()[:12] in known:
                    n.left, n.comparators = n.comparators[0], [n.left]
                    n.ops = [getattr(ast, _FLIPOP[k[1]])()]


# ------------------------------------------------------------------ how far is a function from the reference's?

def statement_hashes(fn) -> list:
    """one hash per statement of fn (nested functions included), compound statements by their header"""
    import copy
    out = []
    loc = _all_local_names(fn) | set(params_of(fn))
    for st in ast.walk(fn):
        if isinstance(st, ast.stmt) and st is not fn and not isinstance(st, (ast.Pass,)):
            # local names blanked: a renamed (or not aligned) local does not make every statement that uses it "different"
            head = copy.deepcopy(_head_only(st))
            head = _Blank(loc | _inner_bound(head), None).visit(head)
            try:
                txt = ast.unparse(head)
            except Exception:  # noqa: BLE001
                txt = ast.dump(head)
            out.append(hashlib.sha1(" ".join(txt.split()).encode()).hexdigest()[:10])
    return out


def edit_size(fn, modname: str, qual: str):
    """(statements the reference's function does not have, statements of the reference's function that are gone), or None
    when the function is not in the reference.  Computed on the canonical form (reference names, canonical spelling)."""
    from collections import Counter
    tab = (reference().get("__stmts__") or {}).get(modname) or {}
    ref = tab.get(last_def_key(tab, qual))
    if ref is None:
        return None
    cur = Counter(statement_hashes(fn))
    old = Counter(ref)
    added = sum((cur - old).values())
    removed = sum((old - cur).values())
    return added, removed
