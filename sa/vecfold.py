"""Exact folding of small vector routines at witness arguments.

A routine that builds a direction from a 3-vector by *selecting* among its components (comparisons, abs, argmin/argmax, sign tests,
cross products with fixed axes, rolls) behaves the same for all arguments with the same pattern of signs, zeros and order of
magnitudes.  The patterns are finitely many; one exact rational witness per pattern decides the routine for all of them.  This
module folds such a routine (assignments, subscript stores with constant index, if / while with decidable tests, return) over
exact values: Fractions, tuples of Fractions (vectors), tuples of tuples (matrices), bools.  Nothing of the repository is
executed; an operation outside the table raises `Unsupported` (the caller then gives no verdict), a draw from a random generator
raises `Randomised`.
"""

from __future__ import annotations

import ast
from fractions import Fraction
from itertools import permutations, product

from .model import dotted


class Unsupported(Exception):
    pass


class OutOfRange(Unsupported):
    """a subscript outside the sequence: the real code raises IndexError here"""


class RaiseReached(Unsupported):
    """a raise statement is executed for these arguments"""


class Randomised(Exception):
    pass


class ZeroNorm(Exception):
    """a zero vector was divided by its norm (NaN at run time)"""


class Norm:
    """the Euclidean norm of a vector, kept symbolic (only 'zero or not' and ratios with itself matter)"""

    def __init__(self, v):
        self.v = v
        self.sq = sum((x * x for x in v), Fraction(0))

    def is_zero(self):
        return self.sq == 0


def is_vec(v):
    return isinstance(v, tuple) and all(isinstance(x, (Fraction, int)) and not isinstance(x, bool) for x in v)


def _F(x):
    if isinstance(x, bool):
        return x
    if isinstance(x, int):
        return Fraction(x)
    if isinstance(x, float):
        return Fraction(str(x))
    return x


def _lift(v):
    if isinstance(v, (list, tuple)):
        return tuple(_lift(x) for x in v)
    return _F(v)


def _shape(v):
    if isinstance(v, tuple) and not (len(v) >= 1 and v[0] == "__obj__"):
        if len(v) and all(isinstance(x, tuple) for x in v):
            n = {len(x) for x in v}
            if len(n) == 1:
                return (len(v), n.pop())
            raise Unsupported("ragged array")
        return (len(v),)
    return ()


def _to2(v, shp):
    """view any operand as a 2-D nested tuple"""
    if shp == ():
        return ((v,),)
    if len(shp) == 1:
        return (tuple(v),)
    return v


def _bcast(f, a, b):
    sa, sb = _shape(a), _shape(b)
    if len(sa) <= 1 and len(sb) <= 1:
        return None
    A, B = _to2(a, sa), _to2(b, sb)
    ra, ca, rb, cb = len(A), len(A[0]), len(B), len(B[0])
    if not ((ra == rb or ra == 1 or rb == 1) and (ca == cb or ca == 1 or cb == 1)):
        raise Unsupported("shapes do not broadcast")
    R_, C_ = max(ra, rb), max(ca, cb)
    return tuple(tuple(f(A[i if ra > 1 else 0][j if ca > 1 else 0], B[i if rb > 1 else 0][j if cb > 1 else 0]) for j in range(C_)) for i in range(R_))


def _bin(op, a, b):
    if isinstance(a, tuple) or isinstance(b, tuple):
        r2 = _bcast(lambda x, y: _bin(op, x, y), a, b)
        if r2 is not None:
            return r2
    if isinstance(a, tuple) and isinstance(b, tuple):
        if len(a) != len(b):
            if len(a) == 1:
                return tuple(_bin(op, a[0], y) for y in b)
            if len(b) == 1:
                return tuple(_bin(op, x, b[0]) for x in a)
            raise Unsupported("shape mismatch")
        return tuple(_bin(op, x, y) for x, y in zip(a, b))
    if isinstance(a, tuple):
        return tuple(_bin(op, x, b) for x in a)
    if isinstance(b, tuple):
        return tuple(_bin(op, a, y) for y in b)
    if isinstance(b, Norm) or isinstance(a, Norm):
        raise Unsupported("arithmetic on a norm")
    if isinstance(op, ast.Add):
        return a + b
    if isinstance(op, ast.Sub):
        return a - b
    if isinstance(op, ast.Mult):
        return a * b
    if isinstance(op, ast.Div):
        if b == 0:
            raise ZeroNorm("division by zero")
        return Fraction(a) / Fraction(b)
    if isinstance(op, ast.Pow) and isinstance(b, Fraction) and b.denominator == 1:
        return a ** int(b)
    if isinstance(op, ast.Mod) and b != 0:
        return a % b
    if isinstance(op, ast.FloorDiv) and b != 0:
        return Fraction(a // b)
    raise Unsupported(f"operator {type(op).__name__}")


def _div_norm(a, n: Norm):
    if n.is_zero():
        raise ZeroNorm("a zero vector is divided by its norm")
    if a == n.v:
        return UnitOf(a)
    raise Unsupported("division by the norm of another vector")


class UnitOf(tuple):
    """direction of a non-zero vector (v / |v|); behaves as the vector for everything that only depends on direction"""

    def __new__(cls, v):
        return super().__new__(cls, v)


def _cmp(op, a, b):
    if isinstance(a, tuple) or isinstance(b, tuple):
        r2 = _bcast(lambda x, y: _cmp(op, x, y), a, b)
        if r2 is not None:
            return r2
        if isinstance(a, tuple) and isinstance(b, tuple):
            return tuple(_cmp(op, x, y) for x, y in zip(a, b))
        if isinstance(a, tuple):
            return tuple(_cmp(op, x, b) for x in a)
        return tuple(_cmp(op, a, y) for y in b)
    if isinstance(op, ast.Eq):
        return a == b
    if isinstance(op, ast.NotEq):
        return a != b
    if isinstance(op, ast.Lt):
        return a < b
    if isinstance(op, ast.LtE):
        return a <= b
    if isinstance(op, ast.Gt):
        return a > b
    if isinstance(op, ast.GtE):
        return a >= b
    if isinstance(op, ast.Is):
        return a is b
    if isinstance(op, ast.IsNot):
        return a is not b
    raise Unsupported("comparison")


def cross(a, b):
    if not (is_vec(a) and is_vec(b) and len(a) == 3 and len(b) == 3):
        raise Unsupported("cross of non 3-vectors")
    return (a[1] * b[2] - a[2] * b[1], a[2] * b[0] - a[0] * b[2], a[0] * b[1] - a[1] * b[0])


def dot(a, b):
    if is_vec(a) and is_vec(b) and len(a) == len(b):
        return sum((x * y for x, y in zip(a, b)), Fraction(0))
    raise Unsupported("dot")


class _Return(Exception):
    def __init__(self, v):
        self.v = v


class VecEval:
    MAX_STEPS = 400

    def __init__(self, env: dict, opaque_calls=(), identity_calls=(), methods=None, depth=0):
        self.env = {k: _lift(v) for k, v in env.items()}
        self.steps = 0
        self.yields = []
        self.opaque_calls = tuple(opaque_calls)      # constructors of the package: the value is the tuple of the folded arguments
        self.identity_calls = tuple(identity_calls)  # converters that keep the value (tuple of floats of a vector ...)
        self.methods = dict(methods or {})           # helper methods / functions of the package that may be folded through: name -> FunctionDef
        self.depth = depth

    # ------------------------------------------------------------------ statements
    def run(self, body):
        try:
            self.block(body)
        except _Return as r:
            return r.v
        return None

    def block(self, body):
        for s in body:
            self.stmt(s)

    def stmt(self, s):
        self.steps += 1
        if self.steps > self.MAX_STEPS:
            raise Unsupported("too many steps")
        if isinstance(s, ast.Expr):
            if isinstance(s.value, ast.Constant):
                return
            if isinstance(s.value, ast.Yield):
                self.yields.append(self.ev(s.value.value) if s.value.value is not None else None)
                return
            self.ev(s.value)
        elif isinstance(s, ast.Return):
            raise _Return(self.ev(s.value) if s.value is not None else None)
        elif isinstance(s, ast.Assign):
            v = self.ev(s.value)
            for t in s.targets:
                self.assign(t, v)
        elif isinstance(s, ast.AnnAssign):
            if s.value is not None:
                self.assign(s.target, self.ev(s.value))
        elif isinstance(s, ast.AugAssign):
            cur = self.ev(_load(s.target))
            rhs = self.ev(s.value)
            if isinstance(rhs, Norm) and isinstance(s.op, ast.Div):
                self.assign(s.target, _div_norm(cur, rhs))
            else:
                self.assign(s.target, _bin(s.op, cur, rhs))
        elif isinstance(s, ast.If):
            self.block(s.body if self.truth(s.test) else s.orelse)
        elif isinstance(s, ast.While):
            while self.truth(s.test):
                self.steps += 1
                if self.steps > self.MAX_STEPS:
                    raise Unsupported("loop does not end")
                self.block(s.body)
        elif isinstance(s, ast.For):
            it = self.ev(s.iter)
            if not isinstance(it, (tuple, list, range)):
                raise Unsupported("for over a non-sequence")
            for x in it:
                self.assign(s.target, _lift(x))
                self.block(s.body)
        elif isinstance(s, (ast.Pass, ast.Import, ast.ImportFrom)):
            return
        elif isinstance(s, ast.Assert):
            return
        elif isinstance(s, ast.Raise):
            raise RaiseReached("raise reached")
        else:
            raise Unsupported(f"statement {type(s).__name__}")

    def assign(self, t, v):
        if isinstance(t, ast.Name):
            self.env[t.id] = v
        elif isinstance(t, (ast.Tuple, ast.List)):
            if not isinstance(v, tuple) or len(v) != len(t.elts):
                raise Unsupported("unpacking")
            for a, b in zip(t.elts, v):
                self.assign(a, b)
        elif isinstance(t, ast.Subscript) and isinstance(t.value, ast.Name):
            base = self.env.get(t.value.id)
            i = self.ev(t.slice)
            if isinstance(base, tuple) and isinstance(i, (int, Fraction)) and not isinstance(i, bool) and Fraction(i).denominator == 1:
                k = int(i)
                if not -len(base) <= k < len(base):
                    raise OutOfRange("index out of range")
                lst = list(base)
                lst[k] = v
                self.env[t.value.id] = tuple(lst)
            elif isinstance(base, tuple) and isinstance(i, tuple) and len(i) == len(base) and all(isinstance(x, bool) for x in i):
                self.env[t.value.id] = tuple(v if m else x for m, x in zip(i, base))
            else:
                raise Unsupported("subscript store")
        else:
            raise Unsupported("assignment target")

    def truth(self, e) -> bool:
        v = self.ev(e)
        if isinstance(v, tuple):
            raise Unsupported("truth value of an array")
        return bool(v)

    # ------------------------------------------------------------------ expressions
    def ev(self, e):
        if isinstance(e, ast.Constant):
            if isinstance(e.value, (int, float, bool)) or e.value is None:
                return _F(e.value)
            raise Unsupported("constant")
        if isinstance(e, ast.Name):
            if e.id in self.env:
                return self.env[e.id]
            if e.id in ("True", "False"):
                return e.id == "True"
            raise Unsupported(f"unbound name {e.id}")
        if isinstance(e, (ast.Tuple, ast.List)):
            return tuple(self.ev(x) for x in e.elts)
        if isinstance(e, ast.UnaryOp):
            v = self.ev(e.operand)
            if isinstance(e.op, ast.USub):
                return _bin(ast.Mult(), Fraction(-1), v)
            if isinstance(e.op, ast.UAdd):
                return v
            if isinstance(e.op, ast.Not):
                if isinstance(v, tuple):
                    raise Unsupported("not on an array")
                return not v
            if isinstance(e.op, ast.Invert) and isinstance(v, tuple):
                return tuple(not x for x in v)
            raise Unsupported("unary")
        if isinstance(e, ast.BinOp):
            a, b = self.ev(e.left), self.ev(e.right)
            if isinstance(b, Norm) and isinstance(e.op, ast.Div):
                return _div_norm(a, b)
            if isinstance(e.op, (ast.BitAnd, ast.BitOr)) and isinstance(a, tuple) and isinstance(b, tuple):
                return tuple((x and y) if isinstance(e.op, ast.BitAnd) else (x or y) for x, y in zip(a, b))
            if isinstance(e.op, ast.MatMult):
                return dot(a, b)
            return _bin(e.op, a, b)
        if isinstance(e, ast.BoolOp):
            is_and = isinstance(e.op, ast.And)
            r = None
            for i, x in enumerate(e.values):
                r = self.ev(x)
                if i == len(e.values) - 1:
                    return r  # the last operand is the value, its truth is not asked for
                if isinstance(r, tuple) and not isinstance(r, UnitOf):
                    raise Unsupported("truth value of an array")
                if is_and and not r:
                    return r
                if not is_and and r:
                    return r
            return r
        if isinstance(e, ast.Compare):
            left = self.ev(e.left)
            res = True
            for op, c in zip(e.ops, e.comparators):
                right = self.ev(c)
                r = _cmp(op, left, right)
                if isinstance(r, tuple):
                    if len(e.ops) > 1:
                        raise Unsupported("chained array comparison")
                    return r
                if not r:
                    return False
                left = right
            return res
        if isinstance(e, ast.IfExp):
            return self.ev(e.body) if self.truth(e.test) else self.ev(e.orelse)
        if isinstance(e, ast.Subscript):
            base = self.ev(e.value)
            if isinstance(e.slice, ast.Slice):
                lo = self.ev(e.slice.lower) if e.slice.lower is not None else None
                hi = self.ev(e.slice.upper) if e.slice.upper is not None else None
                st = self.ev(e.slice.step) if e.slice.step is not None else None
                if isinstance(base, tuple):
                    return tuple(base[slice(*(int(x) if x is not None else None for x in (lo, hi, st)))])
                raise Unsupported("slice")
            if isinstance(e.slice, ast.Tuple) and len(e.slice.elts) == 2 and isinstance(base, tuple):
                a0, a1 = e.slice.elts
                full = lambda x: isinstance(x, ast.Slice) and x.lower is None and x.upper is None and x.step is None  # noqa: E731
                none = lambda x: isinstance(x, ast.Constant) and x.value is None or (isinstance(x, ast.Attribute) and x.attr == "newaxis")  # noqa: E731
                shp = _shape(base)
                if len(shp) == 2 and full(a0) and not none(a1):
                    k = self.ev(a1)
                    if isinstance(k, Fraction) and k.denominator == 1:
                        return tuple(row[int(k)] for row in base)
                if len(shp) == 2 and full(a1) and not none(a0):
                    k = self.ev(a0)
                    if isinstance(k, Fraction) and k.denominator == 1:
                        return base[int(k)]
                if len(shp) == 1 and full(a0) and none(a1):
                    return tuple((x,) for x in base)      # column
                if len(shp) == 1 and none(a0) and full(a1):
                    return (tuple(base),)                  # row
                raise Unsupported("2-d subscript")
            i = self.ev(e.slice)
            if isinstance(base, tuple) and isinstance(i, (int, Fraction)) and not isinstance(i, bool) and Fraction(i).denominator == 1:
                k = int(i)
                if not -len(base) <= k < len(base):
                    raise OutOfRange("index out of range")
                return base[k]
            if isinstance(base, tuple) and isinstance(i, tuple) and all(isinstance(x, bool) for x in i) and len(i) == len(base):
                return tuple(x for m, x in zip(i, base) if m)
            if isinstance(base, tuple) and is_vec(i):
                return tuple(base[int(k)] for k in i)
            raise Unsupported("subscript")
        if isinstance(e, ast.Attribute):
            dn = dotted(e)
            if dn is not None and dn in self.env:
                return self.env[dn]
            if e.attr == "T":
                v = self.ev(e.value)
                if is_vec(v):
                    return v
            if e.attr in ("size",):
                v = self.ev(e.value)
                if is_vec(v):
                    return Fraction(len(v))
            if e.attr in ("pi",):
                raise Unsupported("pi")
            raise Unsupported(f"attribute {e.attr}")
        if isinstance(e, ast.Call):
            return self.call(e)
        if isinstance(e, (ast.ListComp, ast.GeneratorExp)) and len(e.generators) == 1:
            g = e.generators[0]
            seq = self.ev(g.iter)
            if not isinstance(seq, tuple):
                raise Unsupported("comprehension over a non-sequence")
            out, saved = [], dict(self.env)
            for x in seq:
                self.assign(g.target, x)
                if all(self.truth(c) for c in g.ifs):
                    out.append(self.ev(e.elt))
            self.env = saved
            return tuple(out)
        raise Unsupported(f"expression {type(e).__name__}")

    def call(self, e: ast.Call):
        fn = dotted(e.func) or ""
        last = fn.rsplit(".", 1)[-1]
        if not fn and isinstance(e.func, ast.Attribute):
            last = e.func.attr  # a method of a computed value: (a / b).astype(...).item()
        if last == "astype" and isinstance(e.func, ast.Attribute) and len(e.args) >= 1:
            v_ = self.ev(e.func.value)
            to_int = "int" in ast.unparse(e.args[0]).lower() and "uint" not in ast.unparse(e.args[0]).lower() or "long" in ast.unparse(e.args[0]).lower()
            if to_int:
                import math as _m
                return tuple(Fraction(_m.trunc(x)) for x in v_) if isinstance(v_, tuple) else Fraction(_m.trunc(v_))
            return v_
        if "random" in fn or last in ("rand", "randn", "default_rng", "normal", "uniform", "standard_normal"):
            raise Randomised(fn)
        kw = {k.arg: k.value for k in e.keywords if k.arg}
        if last in self.identity_calls and len(e.args) == 1:
            return self.ev(e.args[0])
        if last in self.identity_calls and not e.args and len(e.keywords) == 1:
            return self.ev(e.keywords[0].value)
        if last in self.opaque_calls:
            return ("__obj__", last) + tuple(self.ev(a) for a in e.args)
        if last in self.methods and self.depth < 3 and (isinstance(e.func, ast.Name) or (isinstance(e.func, ast.Attribute) and isinstance(e.func.value, ast.Name)
                                                                                           and e.func.value.id in ("self", "cls"))):
            fn_ = self.methods[last]
            params = [a.arg for a in fn_.args.posonlyargs + fn_.args.args if a.arg not in ("self", "cls")]
            defaults = fn_.args.defaults
            vals = [self.ev(a) for a in e.args]
            sub_env = {k: v for k, v in self.env.items() if "." in k}
            for i_, p_ in enumerate(params):
                if i_ < len(vals):
                    sub_env[p_] = vals[i_]
                elif p_ in kw:
                    sub_env[p_] = self.ev(kw[p_])
                else:
                    j_ = i_ - (len(params) - len(defaults))
                    if j_ < 0:
                        raise Unsupported(f"missing argument {p_}")
                    sub_env[p_] = self.ev(defaults[j_])
            for k_ in fn_.args.kwonlyargs:
                if k_.arg in kw:
                    sub_env[k_.arg] = self.ev(kw[k_.arg])
            sub = VecEval({}, self.opaque_calls, self.identity_calls, self.methods, self.depth + 1)
            sub.env = sub_env
            r_ = sub.run(fn_.body)
            self.steps += sub.steps
            return r_
        # methods on a value: v.copy(), v.astype(..), v.dot(w), v.argmin() ...
        recv = None
        if isinstance(e.func, ast.Attribute) and not fn.startswith(("np.", "numpy.", "math.")):
            try:
                recv = self.ev(e.func.value)
            except Unsupported:
                recv = None
        args = [self.ev(a) for a in e.args]
        if recv is not None:
            args = [recv] + args
        a0 = args[0] if args else None
        if last in ("asarray", "array", "asanyarray", "copy", "astype", "float", "float64", "float32", "ravel", "flatten", "squeeze", "ascontiguousarray", "tolist", "tuple", "list", "int64"):
            if isinstance(a0, (tuple, Fraction, bool)):
                return a0
            raise Unsupported(last)
        if last == "int":
            if isinstance(a0, Fraction):
                return Fraction(int(a0))
            if isinstance(a0, bool):
                return Fraction(int(a0))
            raise Unsupported("int")
        if last == "item" and isinstance(a0, Fraction):
            return a0
        if last in ("ceil", "floor", "trunc", "rint", "round", "around", "fix") and isinstance(a0, (Fraction, tuple)):
            import math
            f = {"ceil": math.ceil, "floor": math.floor, "trunc": math.trunc, "fix": math.trunc}.get(last, lambda x: round(x))
            return tuple(Fraction(f(x)) for x in a0) if isinstance(a0, tuple) else Fraction(f(a0))
        if last in ("zeros", "ones", "empty"):
            n = a0
            if isinstance(n, tuple) and len(n) == 1:
                n = n[0]
            if isinstance(n, Fraction) and n.denominator == 1:
                return tuple(Fraction(1 if last == "ones" else 0) for _ in range(int(n)))
            raise Unsupported(last)
        if last in ("zeros_like", "ones_like", "empty_like") and is_vec(a0):
            return tuple(Fraction(1 if last == "ones_like" else 0) for _ in a0)
        if last in ("eye", "identity") and isinstance(a0, Fraction):
            n = int(a0)
            return tuple(tuple(Fraction(1 if i == j else 0) for j in range(n)) for i in range(n))
        if last in ("abs", "absolute", "fabs"):
            if is_vec(a0):
                return tuple(abs(x) for x in a0)
            if isinstance(a0, Fraction):
                return abs(a0)
            raise Unsupported("abs")
        if last == "sign":
            sg = lambda x: Fraction((x > 0) - (x < 0))
            if isinstance(a0, tuple) and len(_shape(a0)) == 2:
                return tuple(tuple(sg(x) for x in row) for row in a0)
            return tuple(sg(x) for x in a0) if is_vec(a0) else sg(a0)
        if last in ("argmin", "argmax") and is_vec(a0) and len(args) == 1:
            pick = min if last == "argmin" else max
            m = pick(a0)
            return Fraction(list(a0).index(m))  # numpy: first occurrence
        if last in ("min", "max", "amin", "amax"):
            if isinstance(a0, tuple) and len(_shape(a0)) == 2 and ("axis" in kw or len(args) == 2):
                axis = self.ev(kw["axis"]) if "axis" in kw else args[1]
                pick = min if "min" in last else max
                if int(axis) in (1, -1):
                    return tuple(pick(row) for row in a0)
                if int(axis) == 0:
                    return tuple(pick(row[j] for row in a0) for j in range(len(a0[0])))
                raise Unsupported("axis")
            if len(args) == 1 and is_vec(a0):
                return (min if "min" in last else max)(a0)
            if all(isinstance(x, Fraction) for x in args):
                return (min if "min" in last else max)(args)
            raise Unsupported(last)
        if last in ("minimum", "maximum") and len(args) == 2:
            f = min if last == "minimum" else max
            if is_vec(args[0]) and is_vec(args[1]):
                return tuple(f(x, y) for x, y in zip(*args))
            if all(isinstance(x, Fraction) for x in args):
                return f(args)
        if last == "sum" and is_vec(a0):
            return sum(a0, Fraction(0))
        if last == "cross" and len(args) == 2:
            return cross(tuple(args[0]), tuple(args[1]))
        if last in ("dot", "inner", "vdot") and len(args) == 2:
            return dot(tuple(args[0]), tuple(args[1]))
        if last == "roll" and is_vec(a0) and len(args) == 2 and isinstance(args[1], Fraction):
            k = int(args[1]) % len(a0)
            return tuple(a0[-k:] + a0[:-k]) if k else a0
        if last == "flip" and is_vec(a0):
            return tuple(reversed(a0))
        if last == "norm" and is_vec(a0):
            return Norm(tuple(a0))
        if last in ("allclose", "array_equal", "array_equiv") and len(args) >= 2:
            a, b = args[0], args[1]
            if isinstance(a, UnitOf) or isinstance(b, UnitOf):
                return _parallel_same_direction(tuple(a), tuple(b))
            return a == b
        if last == "isclose" and len(args) >= 2:
            r = _cmp(ast.Eq(), args[0], args[1])
            return r
        if last in ("all", "alltrue") and isinstance(a0, tuple):
            return all(a0)
        if last in ("any", "sometrue") and isinstance(a0, tuple):
            return any(a0)
        if last in ("all", "any") and isinstance(a0, bool):
            return a0
        if last in ("count_nonzero", "sum") and isinstance(a0, tuple) and len(_shape(a0)) == 2:
            axis = self.ev(kw["axis"]) if "axis" in kw else (args[1] if len(args) > 1 else None)
            cnt = (lambda xs: Fraction(sum(1 for x in xs if x))) if last == "count_nonzero" else (lambda xs: sum(xs, Fraction(0)))
            if axis is None:
                return cnt([x for row in a0 for x in row])
            if int(axis) in (1, -1):
                return tuple(cnt(row) for row in a0)
            if int(axis) == 0:
                return tuple(cnt([row[j] for row in a0]) for j in range(len(a0[0])))
            raise Unsupported("axis")
        if last in ("count_nonzero",) and isinstance(a0, tuple):
            return Fraction(sum(1 for x in a0 if x))
        if last in ("flatnonzero",) and isinstance(a0, tuple):
            return tuple(Fraction(i) for i, x in enumerate(a0) if x)
        if last == "nonzero" and isinstance(a0, tuple):
            return (tuple(Fraction(i) for i, x in enumerate(a0) if x),)
        if last == "len" and isinstance(a0, tuple):
            return Fraction(len(a0))
        if last == "where" and len(args) == 3 and isinstance(a0, tuple):
            b, c = args[1], args[2]
            bb = b if isinstance(b, tuple) else tuple(b for _ in a0)
            cc = c if isinstance(c, tuple) else tuple(c for _ in a0)
            return tuple(x if m else y for m, x, y in zip(a0, bb, cc))
        if last in ("bisect_right", "bisect", "bisect_left") and len(args) == 2 and is_vec(a0) and isinstance(args[1], Fraction):
            import bisect as _bs2
            return Fraction((_bs2.bisect_left if last == "bisect_left" else _bs2.bisect_right)(list(a0), args[1]))
        if last == "searchsorted" and len(args) >= 2 and is_vec(a0) and "sorter" not in kw:
            side = kw["side"].value if "side" in kw and isinstance(kw["side"], ast.Constant) else ("left" if "side" not in kw and len(e.args) < 3 else None)
            if side is None and len(e.args) > 2 and isinstance(e.args[2], ast.Constant):
                side = e.args[2].value
            if side not in ("left", "right"):
                raise Unsupported("searchsorted side")
            import bisect as _bs
            f = _bs.bisect_right if side == "right" else _bs.bisect_left
            v_ = args[1]
            if isinstance(v_, Fraction):
                return Fraction(f(list(a0), v_))
            if is_vec(v_):
                return tuple(Fraction(f(list(a0), x)) for x in v_)
            raise Unsupported("searchsorted operand")
        if last == "argsort" and is_vec(a0):
            return tuple(Fraction(i) for i in sorted(range(len(a0)), key=lambda i: (a0[i], i)))
        if last == "range":
            return tuple(Fraction(i) for i in range(*[int(x) for x in args]))
        if last == "logical_and" and len(args) == 2:
            return _bin_bool(args[0], args[1], lambda x, y: x and y)
        if last == "logical_or" and len(args) == 2:
            return _bin_bool(args[0], args[1], lambda x, y: x or y)
        if last == "logical_not" and len(args) == 1:
            return tuple(not x for x in a0) if isinstance(a0, tuple) else (not a0)
        if last == "delete" and is_vec(a0) and len(args) == 2 and isinstance(args[1], Fraction):
            k = int(args[1])
            return tuple(x for i, x in enumerate(a0) if i != k % len(a0))
        raise Unsupported(f"call {fn or type(e.func).__name__}")


def _bin_bool(a, b, f):
    if isinstance(a, tuple) or isinstance(b, tuple):
        r2 = _bcast(f, a, b)
        if r2 is not None:
            return r2
    if isinstance(a, tuple) and isinstance(b, tuple):
        return tuple(f(x, y) for x, y in zip(a, b))
    if isinstance(a, tuple):
        return tuple(f(x, b) for x in a)
    if isinstance(b, tuple):
        return tuple(f(a, y) for y in b)
    return f(a, b)


def _parallel_same_direction(a, b):
    """unit(a) == unit(b)  <=>  a x b = 0 and a.b > 0 (exact)"""
    if len(a) != 3 or len(b) != 3:
        raise Unsupported("unit comparison")
    return cross(a, b) == (0, 0, 0) and dot(a, b) > 0


def _load(t):
    import copy
    t2 = copy.deepcopy(t)
    for n in ast.walk(t2):
        if hasattr(n, "ctx"):
            n.ctx = ast.Load()
    return t2


def direction_witnesses():
    """one 3-vector per pattern of signs, zeros and order of magnitudes of the components (ties included)"""
    out = set()
    for v in product((-1, 0, 1), repeat=3):
        if any(v):
            out.add(v)
    for mags in ((1, 2, 3), (1, 1, 2), (1, 2, 2), (0, 1, 2)):
        for p in set(permutations(mags)):
            for sg in product((-1, 1), repeat=3):
                v = tuple(s * m for s, m in zip(sg, p))
                if any(v):
                    out.add(v)
    return sorted(out)
