"""Small AST helpers shared by the rules."""

from __future__ import annotations

import ast
from typing import Iterator, Optional

from .model import AnalysisError, Def, dotted, own_nodes, norm_src


def assigns_to(d: Def, name: str) -> list[ast.AST]:
    """Assign / AnnAssign / AugAssign / NamedExpr statements binding ``name`` in d."""
    out = []
    for n in own_nodes(d):
        if isinstance(n, ast.Assign):
            for t in n.targets:
                if name in _names(t):
                    out.append(n)
                    break
        elif isinstance(n, (ast.AnnAssign, ast.AugAssign)):
            if isinstance(n.target, ast.Name) and n.target.id == name:
                out.append(n)
        elif isinstance(n, ast.NamedExpr) and n.target.id == name:
            out.append(n)
    return out


def single_assign(d: Def, name: str, what: str = "") -> ast.AST:
    xs = [a for a in assigns_to(d, name) if isinstance(a, (ast.Assign, ast.AnnAssign))]
    if len(xs) != 1:
        raise AnalysisError(
            f"anchor-vanished: expected exactly one assignment to `{name}` in {d.qualname}"
            f" ({what}), found {len(xs)}")
    return xs[0]


def value_of(d: Def, name: str) -> ast.AST:
    a = single_assign(d, name)
    return a.value


def _names(t: ast.AST) -> list[str]:
    if isinstance(t, ast.Name):
        return [t.id]
    if isinstance(t, (ast.Tuple, ast.List)):
        return [x for e in t.elts for x in _names(e)]
    if isinstance(t, ast.Starred):
        return _names(t.value)
    return []


def names_in(e: ast.AST) -> set:
    return {n.id for n in ast.walk(e) if isinstance(n, ast.Name)}


def find_calls(d: Def, pred) -> list[ast.Call]:
    return [n for n in own_nodes(d) if isinstance(n, ast.Call) and pred(n)]


def call_name(c: ast.Call) -> str:
    return dotted(c.func) or (c.func.attr if isinstance(c.func, ast.Attribute) else "")


def method_name(c: ast.Call) -> Optional[str]:
    return c.func.attr if isinstance(c.func, ast.Attribute) else None


def kwarg(c: ast.Call, name: str) -> Optional[ast.AST]:
    for k in c.keywords:
        if k.arg == name:
            return k.value
    return None


def walk_stmts(body: list[ast.stmt]) -> Iterator[ast.stmt]:
    """All statements in a body, descending into compound statements but not defs."""
    for s in body:
        yield s
        if isinstance(s, (ast.FunctionDef, ast.AsyncFunctionDef, ast.ClassDef)):
            continue
        for f in ("body", "orelse", "finalbody"):
            sub = getattr(s, f, None)
            if sub:
                yield from walk_stmts(sub)
        for h in getattr(s, "handlers", []) or []:
            yield from walk_stmts(h.body)
        for c in getattr(s, "cases", []) or []:
            yield from walk_stmts(c.body)


def is_const(e: ast.AST, value) -> bool:
    if isinstance(e, ast.Constant) and e.value == value and type(e.value) is type(value):
        return True
    if isinstance(value, (int, float)) and value < 0 and isinstance(e, ast.UnaryOp) \
            and isinstance(e.op, ast.USub) and isinstance(e.operand, ast.Constant):
        return -e.operand.value == value
    return False


def const_int(e: ast.AST) -> Optional[int]:
    if isinstance(e, ast.Constant) and isinstance(e.value, int) and not isinstance(e.value, bool):
        return e.value
    if isinstance(e, ast.UnaryOp) and isinstance(e.op, ast.USub):
        v = const_int(e.operand)
        return -v if v is not None else None
    return None


def same(a: ast.AST, b: ast.AST) -> bool:
    return norm_src(a) == norm_src(b)


def enclosing_stmts(repo, node: ast.AST, stop: ast.AST) -> list[ast.AST]:
    """Ancestors of node up to (excluding) stop, innermost first."""
    out = []
    n = repo.parent(node)
    while n is not None and n is not stop:
        out.append(n)
        n = repo.parent(n)
    return out


def in_loop(repo, node: ast.AST, d: Def) -> bool:
    return any(isinstance(a, (ast.For, ast.While, ast.comprehension, ast.ListComp,
                              ast.GeneratorExp, ast.SetComp, ast.DictComp))
               for a in enclosing_stmts(repo, node, d.node))


def ends_with(e: ast.AST, suffix: str) -> Optional[bool]:
    """Does the string expression definitely end with suffix?  None = cannot tell."""
    if isinstance(e, ast.Constant) and isinstance(e.value, str):
        return e.value.endswith(suffix)
    if isinstance(e, ast.JoinedStr):
        if not e.values:
            return False
        last = e.values[-1]
        if isinstance(last, ast.Constant) and isinstance(last.value, str):
            if last.value.endswith(suffix):
                return True
            if len(last.value) >= len(suffix):
                return False
        return None
    if isinstance(e, ast.BinOp) and isinstance(e.op, ast.Add):
        r = ends_with(e.right, suffix)
        if r is not None:
            return r
        return None
    if isinstance(e, ast.IfExp):
        a, b = ends_with(e.body, suffix), ends_with(e.orelse, suffix)
        if a is None or b is None:
            return None if (a is not False and b is not False) else False
        return a and b
    return None


def expand_names(d, e, depth=4):
    """[e] + the values of the local names e mentions (names with exactly one plain assignment in def d),
    transitively: lets a recogniser read through temporaries (`ok = bool(gap < EPS)`; `gap = norm(...)`)."""
    import ast as _ast
    from .model import own_nodes, norm_src
    out, seen, todo = [e], set(), [(e, depth)]
    while todo:
        x, k = todo.pop()
        if k == 0:
            continue
        for n in _ast.walk(x):
            if isinstance(n, _ast.Name) and n.id not in seen:
                seen.add(n.id)
                asg = []
                for a in own_nodes(d):
                    if isinstance(a, _ast.Assign) and len(a.targets) == 1:
                        t = a.targets[0]
                        if isinstance(t, _ast.Name) and t.id == n.id:
                            asg.append(a.value)
                        elif isinstance(t, (_ast.Tuple, _ast.List)) and any(isinstance(z, _ast.Name) and z.id == n.id for z in t.elts):
                            asg.append(a.value)
                    elif isinstance(a, _ast.AnnAssign) and a.value is not None and isinstance(a.target, _ast.Name) and a.target.id == n.id:
                        asg.append(a.value)
                    elif isinstance(a, _ast.NamedExpr) and a.target.id == n.id:
                        asg.append(a.value)
                if len(asg) == 1:
                    out.append(asg[0])
                    todo.append((asg[0], k - 1))
    return out
