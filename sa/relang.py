"""Regular-language inclusion for the small regexes of the SWC reader/writer.

Patterns are parsed with the stdlib's ``re._parser`` (regex AST), turned into an
epsilon-NFA over the ASCII alphabet, determinised lazily, and inclusion
L(a) <= L(b) is decided on the product automaton; a shortest counterexample is
returned when it fails.  Whole-string semantics: ``^`` must open the pattern (or
``.*`` is assumed), ``$`` accepts at the end or before one trailing newline.
"""

from __future__ import annotations

import re
from collections import deque
from typing import Optional

try:  # Python >= 3.11
    import re._parser as sre_parse
    import re._constants as sre_c
except ImportError:  # pragma: no cover
    import sre_parse  # type: ignore
    import sre_constants as sre_c  # type: ignore

ALPHABET = [chr(i) for i in range(128)]
_SPACE = set(" \t\n\r\f\v")
_DIGIT = set("0123456789")
_WORD = set("abcdefghijklmnopqrstuvwxyzABCDEFGHIJKLMNOPQRSTUVWXYZ0123456789_")


class UnsupportedRegex(Exception):
    pass


class NFA:
    def __init__(self):
        self.n = 0
        self.eps: dict[int, set] = {}
        self.trans: dict[int, list] = {}  # state -> [(charset(frozenset), target)]

    def new(self) -> int:
        s = self.n
        self.n += 1
        self.eps[s] = set()
        self.trans[s] = []
        return s


def _category(c) -> set:
    if c == sre_c.CATEGORY_DIGIT:
        return set(_DIGIT)
    if c == sre_c.CATEGORY_NOT_DIGIT:
        return set(ALPHABET) - _DIGIT
    if c == sre_c.CATEGORY_SPACE:
        return set(_SPACE)
    if c == sre_c.CATEGORY_NOT_SPACE:
        return set(ALPHABET) - _SPACE
    if c == sre_c.CATEGORY_WORD:
        return set(_WORD)
    if c == sre_c.CATEGORY_NOT_WORD:
        return set(ALPHABET) - _WORD
    raise UnsupportedRegex(f"category {c}")


def _in_set(items) -> frozenset:
    neg = False
    s: set = set()
    for op, av in items:
        if op == sre_c.NEGATE:
            neg = True
        elif op == sre_c.LITERAL:
            if av < 128:
                s.add(chr(av))
        elif op == sre_c.RANGE:
            lo, hi = av
            for c in range(lo, min(hi, 127) + 1):
                s.add(chr(c))
        elif op == sre_c.CATEGORY:
            s |= _category(av)
        else:
            raise UnsupportedRegex(f"set item {op}")
    if neg:
        s = set(ALPHABET) - s
    return frozenset(s)


def _build(nfa: NFA, items, start: int, at_end_ok: bool) -> int:
    """Build fragment for a sequence; returns end state."""
    cur = start
    items = list(items)
    for idx, (op, av) in enumerate(items):
        last = idx == len(items) - 1
        if op == sre_c.LITERAL:
            nxt = nfa.new()
            if av < 128:
                nfa.trans[cur].append((frozenset(chr(av)), nxt))
            cur = nxt
        elif op == sre_c.NOT_LITERAL:
            nxt = nfa.new()
            nfa.trans[cur].append((frozenset(set(ALPHABET) - {chr(av)}), nxt))
            cur = nxt
        elif op == sre_c.ANY:
            nxt = nfa.new()
            nfa.trans[cur].append((frozenset(set(ALPHABET) - {"\n"}), nxt))
            cur = nxt
        elif op == sre_c.IN:
            nxt = nfa.new()
            nfa.trans[cur].append((_in_set(av), nxt))
            cur = nxt
        elif op == sre_c.BRANCH:
            _, alts = av
            end = nfa.new()
            for alt in alts:
                s = nfa.new()
                nfa.eps[cur].add(s)
                e = _build(nfa, alt, s, at_end_ok and last)
                nfa.eps[e].add(end)
            cur = end
        elif op == sre_c.SUBPATTERN:
            sub = av[3]
            cur = _build(nfa, sub, cur, at_end_ok and last)
        elif op in (sre_c.MAX_REPEAT, sre_c.MIN_REPEAT):
            lo, hi, sub = av
            for _ in range(lo):
                cur = _build(nfa, sub, cur, False)
            if hi == sre_c.MAXREPEAT:
                loop = nfa.new()
                nfa.eps[cur].add(loop)
                e = _build(nfa, sub, loop, False)
                nfa.eps[e].add(loop)
                cur = loop
            else:
                end = nfa.new()
                nfa.eps[cur].add(end)
                for _ in range(hi - lo):
                    cur = _build(nfa, sub, cur, False)
                    nfa.eps[cur].add(end)
                cur = end
        elif op == sre_c.AT:
            if av in (sre_c.AT_BEGINNING, sre_c.AT_BEGINNING_STRING):
                if cur != start or idx != 0:
                    raise UnsupportedRegex("^ not at the start")
            elif av in (sre_c.AT_END, sre_c.AT_END_STRING):
                if not (at_end_ok and last):
                    raise UnsupportedRegex("$ not at the end")
                if av == sre_c.AT_END:
                    nxt = nfa.new()
                    nfa.eps[cur].add(nxt)
                    nl = nfa.new()
                    nfa.trans[cur].append((frozenset("\n"), nl))
                    nfa.eps[nl].add(nxt)
                    cur = nxt
            else:
                raise UnsupportedRegex(f"anchor {av}")
        else:
            raise UnsupportedRegex(f"op {op}")
    return cur


def compile_nfa(pattern: str, search: bool = False):
    """NFA for whole-string acceptance.  With ``search=True`` un-anchored ends are
    padded with ``.*`` (any char incl. newline) the way ``re.search`` would."""
    tree = list(sre_parse.parse(pattern))
    nfa = NFA()
    start = nfa.new()
    cur = start
    anchored_start = bool(tree) and tree[0][0] == sre_c.AT and tree[0][1] in (
        sre_c.AT_BEGINNING, sre_c.AT_BEGINNING_STRING)
    anchored_end = bool(tree) and tree[-1][0] == sre_c.AT and tree[-1][1] in (
        sre_c.AT_END, sre_c.AT_END_STRING)
    if search and not anchored_start:
        nfa.trans[cur].append((frozenset(ALPHABET), cur))
    if anchored_start:
        tree = tree[1:]
    end = _build(nfa, tree, cur, True)
    if search and not anchored_end:
        nfa.trans[end].append((frozenset(ALPHABET), end))
    return nfa, start, end


def _closure(nfa: NFA, states) -> frozenset:
    seen = set(states)
    st = list(states)
    while st:
        s = st.pop()
        for t in nfa.eps[s]:
            if t not in seen:
                seen.add(t)
                st.append(t)
    return frozenset(seen)


def _step(nfa: NFA, S: frozenset, ch: str) -> frozenset:
    out = set()
    for s in S:
        for cs, t in nfa.trans[s]:
            if ch in cs:
                out.add(t)
    return _closure(nfa, out)


def included(pat_a: str, pat_b: str, search_b: bool = False, alphabet=None) -> tuple[bool, Optional[str], int]:
    """Decide L(pat_a) <= L(pat_b).  Returns (ok, counterexample, product states)."""
    A, a0, aF = compile_nfa(pat_a)
    B, b0, bF = compile_nfa(pat_b, search=search_b)
    alphabet = alphabet or ALPHABET
    start = (_closure(A, {a0}), _closure(B, {b0}))
    seen = {start: None}
    q = deque([start])
    while q:
        cur = q.popleft()
        SA, SB = cur
        if aF in SA and bF not in SB:
            # rebuild counterexample
            s = []
            x = cur
            while seen[x] is not None:
                x, ch = seen[x]
                s.append(ch)
            return False, "".join(reversed(s)), len(seen)
        for ch in alphabet:
            NA = _step(A, SA, ch)
            if not NA:
                continue
            NB = _step(B, SB, ch)
            nxt = (NA, NB)
            if nxt not in seen:
                seen[nxt] = (cur, ch)
                q.append(nxt)
    return True, None, len(seen)


def accepts(pattern: str, s: str, search: bool = False) -> bool:
    N, s0, f = compile_nfa(pattern, search=search)
    S = _closure(N, {s0})
    for ch in s:
        S = _step(N, S, ch)
        if not S:
            return False
    return f in S
