"""E8 -- bracket-balance typestate of a hand-written recursive-descent / stack parser.

Abstract interpretation of the methods of one parser class.  Nothing is run:
the statements are walked over an abstract state

    e        brackets opened minus brackets closed since the entry method began,
             minus the heights of the explicit stacks below          (int | 'unb')
    stacks   per frame: local lists used as stacks (append/pop) -> height 0 | 1 | 'many'
    toks     abstract tokens: id -> set of token types it may have (incl. EOF)
    la       id of the current look-ahead token (value of ``self.<lookahead attr>``)
    env      local name -> abstract value (token / token type / stack / none / bool / other)

so that the *bracket depth* d = e + sum(stack heights) is exact while the state space
stays finite for arbitrarily deep nesting.  Branch conditions on token types refine the
type sets (path sensitivity); unknown conditions fork.  Loops are iterated to a fixpoint
over canonical state keys; self-recursion is handled by Kleene iteration over method
summaries {(delta d, ended-at-EOF)}, widened to 'unb' beyond +-WIDEN.

The token alphabet, the look-ahead attribute and the primitive that advances the lexer
are read from the class itself (the method that assigns ``self.<attr> = next(...)``).
"""

from __future__ import annotations

import ast
from dataclasses import dataclass, field
from typing import Optional

from .model import ClassInfo, Def, dotted, norm_src

EOF = "EOF"
WIDEN = 6
MANY = "many"
UNB = "unb"


def _height(st, name, node):
    if name not in st.stacks:
        raise Unsupported(node, f"height of the stack-like list `{name}` is not known on this path")
    return st.stacks[name]


class Unsupported(Exception):
    def __init__(self, node, why):
        self.node = node
        self.why = why
        super().__init__(f"{why}: {norm_src(node)[:80] if isinstance(node, ast.AST) else node}")


@dataclass
class State:
    e: object = 0
    toks: dict = field(default_factory=dict)
    la: int = 0
    pending: tuple = ()
    frames: list = field(default_factory=list)  # [{'env':{}, 'stacks':{}}]
    nid: int = 1
    trace: tuple = ()
    seen_eof: bool = False

    def copy(self) -> "State":
        return State(self.e, dict(self.toks), self.la, self.pending,
                     [{"env": dict(f["env"]), "stacks": dict(f["stacks"])} for f in self.frames],
                     self.nid, self.trace, self.seen_eof)

    @property
    def env(self) -> dict:
        return self.frames[-1]["env"]

    @property
    def stacks(self) -> dict:
        return self.frames[-1]["stacks"]

    def key(self):
        def val(v):
            if isinstance(v, tuple) and v and v[0] in ("tok", "typeof"):
                return (v[0], self.toks.get(v[1]), v[1] == self.la)
            return v
        fr = tuple((tuple(sorted((k, val(v)) for k, v in f["env"].items())),
                    tuple(sorted(f["stacks"].items()))) for f in self.frames)
        return (self.e, self.toks[self.la], tuple(sorted(self.toks[p] for p in self.pending)), fr)


class Engine:
    def __init__(self, ctx, cls: ClassInfo):
        self.ctx = ctx
        self.repo = ctx.repo
        self.cls = cls
        self.methods: dict[str, Def] = {n: d for n, d in cls.methods.items()}
        self.enum_types: list[str] = []
        self.open_t = self.close_t = None
        self.la_attr = None
        self.advance: Optional[Def] = None
        self.summaries: dict[str, set] = {}
        self.active: list[str] = []
        self.recursive_hit: set = set()
        self.states_explored = 0
        self.paths = 0
        self.outcomes: dict[str, dict] = {}  # method -> {(dd, eof): trace}
        self.sites: dict = {}
        self._discover()

    # ------------------------------------------------------------ discovery
    def _discover(self):
        # the primitive that advances the lexer: `self.X = next(self.<lexer>, None)`
        for d in self.methods.values():
            for s in d.node.body:
                if isinstance(s, ast.Assign) and len(s.targets) == 1 and isinstance(s.targets[0], ast.Attribute) \
                        and dotted(s.targets[0].value) == "self" and isinstance(s.value, ast.Call) \
                        and dotted(s.value.func) == "next" and len(s.value.args) == 2 \
                        and isinstance(s.value.args[1], ast.Constant) and s.value.args[1].value is None \
                        and len(d.node.body) == 1:
                    self.la_attr = s.targets[0].attr
                    self.advance = d
        if self.advance is None:
            raise Unsupported(self.cls.node, "no primitive `self.<lookahead> = next(self.<lexer>, None)` found")

    def set_alphabet(self, names: list[str], open_t: str, close_t: str):
        self.enum_types = names
        self.open_t, self.close_t = open_t, close_t
        self.ALL = frozenset(names) | {EOF}

    # ------------------------------------------------------------ state helpers
    def _settle(self, st: State):
        keep = []
        for p in st.pending:
            S = st.toks[p]
            if len(S) == 1:
                (t,) = S
                if st.e != UNB:
                    if t == self.open_t:
                        st.e += 1
                    elif t == self.close_t:
                        st.e -= 1
                    if abs(st.e) > WIDEN:
                        st.e = UNB
            else:
                keep.append(p)
        st.pending = tuple(keep)

    def _refine(self, st: State, tid: int, allowed) -> Optional[State]:
        S = st.toks[tid] & frozenset(allowed)
        if not S:
            return None
        st = st.copy()
        st.toks[tid] = S
        if tid == st.la and S == {EOF}:
            st.seen_eof = True
        self._settle(st)
        return st

    def _consume(self, st: State, node) -> list[State]:
        out = []
        S = st.toks[st.la]
        if EOF in S:
            s1 = self._refine(st, st.la, {EOF})
            if s1 is not None:
                out.append(s1)  # at EOF the primitive leaves the look-ahead at None
        s2 = self._refine(st, st.la, S - {EOF})
        if s2 is not None:
            s2.pending = s2.pending + (s2.la,)
            t = s2.nid
            s2.nid += 1
            s2.toks[t] = self.ALL
            old = s2.la
            s2.la = t
            ts = s2.toks[old]
            s2.trace = (s2.trace + ((f"L{getattr(node, 'lineno', 0)}", "|".join(sorted(ts))),))[-40:]
            self._settle(s2)
            out.append(s2)
        return out

    def _gc(self, st: State):
        live = {st.la, *st.pending}
        for f in st.frames:
            for v in f["env"].values():
                if isinstance(v, tuple) and v and v[0] in ("tok", "typeof"):
                    live.add(v[1])
        for t in list(st.toks):
            if t not in live:
                del st.toks[t]

    # ------------------------------------------------------------ expressions
    def eval(self, e: ast.AST, st: State, d: Def):
        """-> list of (value, state).  Values: ('tok',id) ('typeof',id) ('ttype',X) ('none',)
        ('bool',b) ('stack',name) ('len',name) ('other',)"""
        if isinstance(e, ast.Constant):
            if e.value is None:
                return [(("none",), st)]
            if isinstance(e.value, bool):
                return [(("bool", e.value), st)]
            if isinstance(e.value, int):
                return [(("int", e.value), st)]
            return [(("other",), st)]
        if isinstance(e, ast.Name):
            return [(st.env.get(e.id, ("other",)), st)]
        if isinstance(e, ast.NamedExpr):
            out = []
            for v, s in self.eval(e.value, st, d):
                s = s.copy()
                s.env[e.target.id] = v
                out.append((v, s))
            return out
        if isinstance(e, ast.Attribute):
            if dotted(e.value) == "self" and e.attr == self.la_attr:
                return [(("tok", st.la), st)]
            dn = dotted(e) or ""
            if "." in dn and dn.rsplit(".", 1)[1] in self.enum_types and dn.split(".")[-2].endswith("TokenType"):
                return [(("ttype", dn.rsplit(".", 1)[1]), st)]
            out = []
            for v, s in self.eval(e.value, st, d):
                if v[0] == "tok" and e.attr == "type":
                    out.append((("typeof", v[1]), s))
                else:
                    out.append((("other",), s))
            return out
        if isinstance(e, ast.Call):
            return self.call(e, st, d)
        if isinstance(e, ast.Subscript):
            out = []
            for v, s in self.eval(e.value, st, d):
                out.append((("other",), s))
            return out
        if isinstance(e, (ast.List, ast.Tuple)) and not e.elts and isinstance(e, ast.List):
            return [(("newlist",), st)]
        # generic: evaluate children for their effects, result 'other'
        states = [st]
        for ch in ast.iter_child_nodes(e):
            if isinstance(ch, ast.expr):
                nxt = []
                for s in states:
                    nxt += [s2 for _, s2 in self.eval(ch, s, d)]
                states = nxt
            elif isinstance(ch, ast.keyword):
                nxt = []
                for s in states:
                    nxt += [s2 for _, s2 in self.eval(ch.value, s, d)]
                states = nxt
            elif isinstance(ch, ast.comprehension):
                raise Unsupported(e, "comprehension in parser code")
        return [(("other",), s) for s in states]

    def call(self, c: ast.Call, st: State, d: Def):
        f = c.func
        # self.method(...)
        if isinstance(f, ast.Attribute) and dotted(f.value) == "self" and f.attr in self.methods:
            callee = self.methods[f.attr]
            # evaluate args
            combos = [([], {}, st)]
            for a in c.args:
                nxt = []
                for av, kv, s in combos:
                    for v, s2 in self.eval(a, s, d):
                        nxt.append((av + [v], kv, s2))
                combos = nxt
            for k in c.keywords:
                nxt = []
                for av, kv, s in combos:
                    for v, s2 in self.eval(k.value, s, d):
                        nxt.append((av, {**kv, k.arg: v}, s2))
                combos = nxt
            out = []
            for av, kv, s in combos:
                out += self.invoke(callee, av, kv, s, c)
            return out
        if isinstance(f, ast.Name) and f.id == "cast" and len(c.args) == 2:
            return self.eval(c.args[1], st, d)
        if isinstance(f, ast.Name) and f.id == "len" and len(c.args) == 1 and isinstance(c.args[0], ast.Name) \
                and st.env.get(c.args[0].id, ("",))[0] == "stack":
            return [(("len", c.args[0].id), st)]
        if isinstance(f, ast.Attribute) and isinstance(f.value, ast.Name) \
                and st.env.get(f.value.id, ("",))[0] == "stack":
            name = f.value.id
            if f.attr == "append":
                outs = []
                for _, s in (self.eval(c.args[0], st, d) if c.args else [(None, st)]):
                    s = s.copy()
                    h = _height(s, name, c)
                    s.stacks[name] = 1 if h == 0 else MANY
                    if s.e != UNB:
                        s.e -= 1
                        if abs(s.e) > WIDEN:
                            s.e = UNB
                    outs.append((("other",), s))
                return outs
            if f.attr == "pop" and not c.args:
                h = _height(st, name, c)
                if h == 0:
                    return []  # IndexError: the path ends in an exception
                outs = []
                for nh in ([0] if h == 1 else [1, MANY]):
                    s = st.copy()
                    s.stacks[name] = nh
                    if s.e != UNB:
                        s.e += 1
                        if abs(s.e) > WIDEN:
                            s.e = UNB
                    outs.append((("other",), s))
                return outs
            raise Unsupported(c, "unmodelled operation on a stack-like list")
        # any other call: evaluate arguments for effects; the callee cannot reach the lexer
        states = [st]
        parts = list(c.args) + [k.value for k in c.keywords]
        if isinstance(f, ast.Attribute):
            parts = [f.value] + parts
        for a in parts:
            nxt = []
            for s in states:
                nxt += [s2 for _, s2 in self.eval(a, s, d)]
            states = nxt
        return [(("other",), s) for s in states]

    # ------------------------------------------------------------ conditions
    def cond(self, e: ast.AST, st: State, d: Def):
        """-> list of (truth, state)"""
        if isinstance(e, ast.UnaryOp) and isinstance(e.op, ast.Not):
            return [(not t, s) for t, s in self.cond(e.operand, st, d)]
        if isinstance(e, ast.BoolOp):
            res = []
            cur = [(None, st)]
            is_and = isinstance(e.op, ast.And)
            for v in e.values:
                nxt = []
                for _, s in cur:
                    for t, s2 in self.cond(v, s, d):
                        if t == (not is_and):
                            res.append((t, s2))  # short circuit
                        else:
                            nxt.append((t, s2))
                cur = nxt
            return res + [(is_and, s) for _, s in cur]
        if isinstance(e, ast.Compare) and len(e.ops) == 1:
            op = e.ops[0]
            out = []
            for a, s1 in self.eval(e.left, st, d):
                for b, s2 in self.eval(e.comparators[0], s1, d):
                    out += self._compare(a, op, b, s2)
            return out
        out = []
        for v, s in self.eval(e, st, d):
            if v[0] == "bool":
                out.append((v[1], s))
            elif v[0] == "none":
                out.append((False, s))
            elif v[0] == "tok":
                out += self._split_eof(v[1], s, none_truth=False)
            elif v[0] == "stack":
                out += self._stack_zero(v[1], s, zero_truth=False)
            else:
                out += [(True, s), (False, s.copy())]
        return out

    def _split_eof(self, tid, st, none_truth: bool):
        out = []
        a = self._refine(st, tid, {EOF})
        if a is not None:
            out.append((none_truth, a))
        b = self._refine(st, tid, st.toks[tid] - {EOF})
        if b is not None:
            out.append((not none_truth, b))
        return out

    def _stack_zero(self, name, st, zero_truth: bool):
        h = _height(st, name, None)
        if h == 0:
            return [(zero_truth, st)]
        return [(not zero_truth, st)]

    def _compare(self, a, op, b, st):
        neg = isinstance(op, (ast.IsNot, ast.NotEq))
        if isinstance(op, (ast.Is, ast.IsNot, ast.Eq, ast.NotEq)):
            if a[0] == "none":
                a, b = b, a
            if b[0] == "none":
                if a[0] == "tok":
                    return self._split_eof(a[1], st, none_truth=not neg)
                if a[0] == "none":
                    return [(not neg, st)]
                if a[0] in ("ttype", "bool", "stack", "newlist"):
                    return [(neg, st)]
                return [(True, st), (False, st.copy())]
            if a[0] == "ttype":
                a, b = b, a
            if a[0] == "typeof" and b[0] == "ttype":
                out = []
                # `.type` of a None token raises AttributeError: EOF leaves on an exception
                yes = self._refine(st, a[1], {b[1]})
                if yes is not None:
                    out.append((not neg, yes))
                no = self._refine(st, a[1], st.toks[a[1]] - {b[1], EOF})
                if no is not None:
                    out.append((neg, no))
                return out
            if a[0] == "len":
                a, b = b, a
        if b[0] == "len" or a[0] == "len":
            return self._len_compare(a, op, b, st)
        return [(True, st), (False, st.copy())]

    def _len_compare(self, a, op, b, st):
        """`len(stack) <op> <int literal>` (either side); heights are 0 / 1 / many (>= 2)."""
        flip = {ast.Lt: ast.Gt, ast.Gt: ast.Lt, ast.LtE: ast.GtE, ast.GtE: ast.LtE}
        opt = type(op)
        if b[0] == "len":
            a, b = b, a
            opt = flip.get(opt, opt)
        if a[0] != "len" or b[0] != "int":
            return [(True, st), (False, st.copy())]
        h, n = _height(st, a[1], None), b[1]
        cands = {0: [0], 1: [1], MANY: [2, 3, 4, 5]}[h]

        def ev(x):
            return {ast.Eq: x == n, ast.NotEq: x != n, ast.Lt: x < n, ast.LtE: x <= n,
                    ast.Gt: x > n, ast.GtE: x >= n}.get(opt)
        res = {ev(x) for x in cands}
        if None in res:
            return [(True, st), (False, st.copy())]
        if h == MANY and n > 1:
            return [(True, st), (False, st.copy())]  # thresholds above 1 are not separated by the abstraction
        return [(r, st if i == 0 else st.copy()) for i, r in enumerate(sorted(res))]

    # ------------------------------------------------------------ statements
    # outcome kinds: 'fall', 'break', 'continue', ('return', value), 'raise'
    def block(self, body, st: State, d: Def):
        cur = [st]
        done = []
        for s in body:
            nxt = []
            for x in cur:
                for kind, y in self.stmt(s, x, d):
                    if kind == "fall":
                        nxt.append(y)
                    else:
                        done.append((kind, y))
            cur = nxt
            if not cur:
                break
        return done + [("fall", x) for x in cur]

    def _assign(self, target, value, st: State):
        if isinstance(target, ast.Name):
            if value[0] == "newlist":
                st.stacks[target.id] = 0
                st.env[target.id] = ("stack", target.id)
            else:
                st.env[target.id] = value
        elif isinstance(target, (ast.Tuple, ast.List)):
            for t in target.elts:
                self._assign(t, ("other",), st)
        # attribute / subscript stores do not concern the parser state
        elif isinstance(target, ast.Attribute) and dotted(target.value) == "self" and target.attr == self.la_attr:
            raise Unsupported(target, "look-ahead assigned outside the advance primitive")

    def stmt(self, s, st: State, d: Def):
        self.states_explored += 1
        if self.states_explored > 400000:
            raise Unsupported(s, "state budget exhausted")
        if isinstance(s, (ast.Assign, ast.AnnAssign)):
            if isinstance(s, ast.AnnAssign) and s.value is None:
                return [("fall", st)]
            targets = s.targets if isinstance(s, ast.Assign) else [s.target]
            # the advance primitive
            if d is self.advance:
                return [("fall", x) for x in self._consume(st, s)]
            out = []
            if isinstance(s.value, ast.Tuple) and isinstance(targets[0], ast.Tuple) \
                    and len(s.value.elts) == len(targets[0].elts):
                cur = [([], st)]
                for el in s.value.elts:
                    nxt = []
                    for vs, x in cur:
                        for v, y in self.eval(el, x, d):
                            nxt.append((vs + [v], y))
                    cur = nxt
                for vs, x in cur:
                    x = x.copy()
                    for t, v in zip(targets[0].elts, vs):
                        self._assign(t, v, x)
                    out.append(("fall", x))
                return out
            for v, x in self.eval(s.value, st, d):
                x = x.copy()
                for t in targets:
                    self._assign(t, v, x)
                out.append(("fall", x))
            return out
        if isinstance(s, ast.AugAssign):
            return [("fall", x) for _, x in self.eval(s.value, st, d)]
        if isinstance(s, ast.Expr):
            return [("fall", x) for _, x in self.eval(s.value, st, d)]
        if isinstance(s, ast.Pass):
            return [("fall", st)]
        if isinstance(s, ast.Break):
            return [("break", st)]
        if isinstance(s, ast.Continue):
            return [("continue", st)]
        if isinstance(s, ast.Return):
            if s.value is None:
                return [(("return", ("none",)), st)]
            return [(("return", v), x) for v, x in self.eval(s.value, st, d)]
        if isinstance(s, ast.Raise):
            outs = [("raise", st)]
            return outs
        if isinstance(s, ast.Assert):
            out = []
            for t, x in self.cond(s.test, st, d):
                out.append(("fall", x) if t else ("raise", x))
            return out
        if isinstance(s, ast.If):
            out = []
            for t, x in self.cond(s.test, st, d):
                out += self.block(s.body if t else s.orelse, x, d)
            return out
        if isinstance(s, ast.While):
            return self._loop(s, st, d, lambda x: self.cond(s.test, x, d))
        if isinstance(s, ast.For):
            def test(x):
                outs = []
                for _, y in self.eval(s.iter, x, d):
                    a = y.copy()
                    self._assign(s.target, ("other",), a)
                    outs += [(True, a), (False, y.copy())]
                return outs
            return self._loop(s, st, d, test)
        if isinstance(s, ast.Match):
            return self._match(s, st, d)
        if isinstance(s, (ast.FunctionDef, ast.ClassDef, ast.Import, ast.ImportFrom, ast.Global, ast.Nonlocal)):
            return [("fall", st)]
        raise Unsupported(s, "statement kind not modelled by the parser typestate engine")

    def _loop(self, s, st: State, d: Def, test):
        seen = set()
        work = [st]
        out = []
        while work:
            x = work.pop()
            self._gc(x)
            k = x.key()
            if k in seen:
                continue
            seen.add(k)
            if len(seen) > 5000:
                raise Unsupported(s, "loop does not reach a fixpoint within the state budget")
            for t, y in test(x):
                if not t:
                    out += self.block(s.orelse, y, d) if s.orelse else [("fall", y)]
                    continue
                for kind, z in self.block(s.body, y, d):
                    if kind in ("fall", "continue"):
                        work.append(z)
                    elif kind == "break":
                        out.append(("fall", z))
                    else:
                        out.append((kind, z))
        return out

    def _pattern_types(self, p, d):
        """token types a case pattern accepts, None = not a token-type pattern, 'any' = wildcard"""
        if isinstance(p, ast.MatchValue):
            dn = dotted(p.value) or ""
            last = dn.rsplit(".", 1)[-1]
            if last in self.enum_types:
                return {last}
            return None
        if isinstance(p, ast.MatchOr):
            acc = set()
            for q in p.patterns:
                t = self._pattern_types(q, d)
                if t is None or t == "any":
                    return None
                acc |= t
            return acc
        if isinstance(p, ast.MatchAs) and p.pattern is None:
            return "any"
        return None

    def _match(self, s: ast.Match, st: State, d: Def):
        out = []
        for subj, x in self.eval(s.subject, st, d):
            if subj[0] == "typeof":
                tid = subj[1]
                cur = x
                for case in s.cases:
                    if cur is None:
                        break
                    pt = self._pattern_types(case.pattern, d)
                    if pt is None:
                        raise Unsupported(case.pattern, "case pattern on a token type not understood")
                    S = cur.toks[tid] - {EOF}
                    sel = S if pt == "any" else (S & pt)
                    if case.guard is not None:
                        raise Unsupported(case, "guarded case on a token type")
                    if sel:
                        y = self._refine(cur, tid, sel)
                        if isinstance(case.pattern, ast.MatchAs) and case.pattern.name:
                            y = y.copy()
                            y.env[case.pattern.name] = ("other",)
                        out += self.block(case.body, y, d)
                    rest = S - sel
                    cur = self._refine(cur, tid, rest) if rest else None
                if cur is not None:
                    out.append(("fall", cur))  # no case matched
            else:
                # unknown subject: every case is feasible; without a wildcard also none
                wild = False
                for case in s.cases:
                    y = x.copy()
                    if isinstance(case.pattern, ast.MatchAs) and case.pattern.pattern is None:
                        wild = wild or case.guard is None
                        if case.pattern.name:
                            y.env[case.pattern.name] = ("other",)
                    if case.guard is not None:
                        for t, z in self.cond(case.guard, y, d):
                            if t:
                                out += self.block(case.body, z, d)
                    else:
                        out += self.block(case.body, y, d)
                if not wild:
                    out.append(("fall", x.copy()))
        return out

    # ------------------------------------------------------------ calls
    def invoke(self, callee: Def, args, kwargs, st: State, site):
        name = callee.name
        d_entry = st.e
        if name in self.active:
            # recursive call: apply the current summary assumption
            self.recursive_hit.add(name)
            out = []
            for (dd, eof) in sorted(self.summaries.get(name, set()), key=str):
                x = st.copy()
                x.e = UNB if (dd == UNB or x.e == UNB) else x.e + dd
                if x.e != UNB and abs(x.e) > WIDEN:
                    x.e = UNB
                t = x.nid
                x.nid += 1
                x.toks[t] = frozenset({EOF}) if eof else self.ALL
                x.la = t
                if eof:
                    x.seen_eof = True
                out.append((("other",), x))
            return out
        params = [p for p in callee.params if p != "self"]
        st = st.copy()
        env = {}
        for p, v in zip(params, args):
            env[p] = v
        for k, v in kwargs.items():
            env[k] = v
        st.frames.append({"env": env, "stacks": {}})
        self.active.append(name)
        try:
            res = self.block(callee.node.body, st, callee)
        finally:
            self.active.pop()
        out = []
        for kind, x in res:
            if kind == "raise":
                continue
            if kind in ("break", "continue"):
                raise Unsupported(callee.node, "break/continue escaping a def")
            v = kind[1] if isinstance(kind, tuple) else ("none",)
            fr = x.frames.pop()
            x = x  # stacks of the callee die with its frame: fold their heights back into e
            for h in fr["stacks"].values():
                if h == MANY:
                    x.e = UNB
                elif x.e != UNB:
                    x.e += h
            if v[0] in ("stack", "len"):
                v = ("other",)
            # record the outcome of this activation
            dd = UNB if (x.e == UNB or d_entry == UNB) else x.e - d_entry
            if x.pending:
                dd = "?"
            eof = x.toks[x.la] == frozenset({EOF})
            rec = self.outcomes.setdefault(name, {})
            rec.setdefault((dd, eof), x.trace)
            out.append((v, x))
        return out

    # ------------------------------------------------------------ driver
    def analyse(self, entry: str):
        """Kleene iteration over summaries until stable.  Returns outcomes of every method."""
        for it in range(12):
            self.outcomes = {}
            self.recursive_hit = set()
            st = State()
            st.toks[0] = self.ALL
            st.la = 0
            st.frames = [{"env": {}, "stacks": {}}]
            self.invoke(self.methods[entry], [], {}, st, None)
            changed = False
            for m in self.recursive_hit:
                new = set(self.outcomes.get(m, {}).keys())
                old = self.summaries.get(m, set())
                if not new <= old:
                    self.summaries[m] = old | new
                    changed = True
            if not changed:
                return self.outcomes
        raise Unsupported(self.cls.node, "method summaries did not stabilise")
