#!/venv/bin/python
"""Entry point:  check.py Cxx [--tier quick|thorough] [--replay file]

exit 0 -- every rule instance OK (or a listed known finding)
exit 1 -- at least one unlisted VIOLATION (prints `VIOLATION property=<id> replay=<path>`)
exit 2 -- analysis error (crash, a public anchor of the package is gone, a rule with no instances and nothing to explain it);
          with VERIF_STRICT=1 also: any instance that could not be decided (the tools use this to tell "noticed" from "passed")
Instances the analysis cannot decide print UNRESOLVED / NO-VERDICT lines and are listed in the evidence; they are not alarms.
"""

import argparse
import importlib
import json
import os
import sys
import time
import traceback

HERE = os.path.dirname(os.path.abspath(__file__))
sys.path.insert(0, HERE)
sys.dont_write_bytecode = True


class _SafeOut:
    """stdout wrapper: a closed pipe (e.g. `| head`) must not change the exit code."""

    def __init__(self, f):
        self.f = f
        self.dead = False

    def write(self, s):
        if self.dead:
            return len(s)
        try:
            return self.f.write(s)
        except BrokenPipeError:
            self.dead = True
            return len(s)

    def flush(self):
        if not self.dead:
            try:
                self.f.flush()
            except BrokenPipeError:
                self.dead = True

    def __getattr__(self, k):
        return getattr(self.f, k)


def main() -> int:
    sys.stdout = _SafeOut(sys.stdout)
    ap = argparse.ArgumentParser()
    ap.add_argument("prop")
    ap.add_argument("--tier", default=os.environ.get("VERIF_TIER", "quick"),
                    choices=["quick", "thorough"])
    ap.add_argument("--replay", default=None)
    ap.add_argument("--repo", default=None)
    ap.add_argument("--no-evidence", action="store_true")
    args = ap.parse_args()
    prop = args.prop.upper()
    t0 = time.time()
    from sa import report
    from sa.context import Context
    from sa.model import AnalysisError

    try:
        mod = importlib.import_module(f"sa.props.{prop.lower()}")
        ctx = Context(args.repo)
        col = report.Collector(prop)
        col.repo = ctx.repo
        mod.run(ctx, col, args.tier)
        col.analysed.update(ctx.stats())
        if args.replay:
            with open(args.replay, encoding="utf-8") as f:
                want = json.load(f)
            hits = [i for i in col.instances
                    if i.rule == want.get("rule") and i.construct == want.get("construct")
                    and (i.stmt == want.get("stmt") or i.what == want.get("instance"))]
            for i in hits:
                print(json.dumps(i.to_json(), indent=1, default=str))
            if not hits:
                print(f"replay: instance {want.get('rule')} {want.get('construct')} no longer exists")
            bad = [i for i in hits if i.verdict == report.VIOLATION]
            if bad:
                print(f"VIOLATION property={prop} replay={args.replay}")
                return 1
            return 0
        selftest = None
        if args.tier == "thorough" and not os.environ.get("VERIF_SELFTEST_CHILD") and not args.repo:
            if hasattr(mod, "thorough_extra"):
                mod.thorough_extra(ctx, col)
            try:
                vmod = importlib.import_module(f"sa.variants.{prop.lower()}")
            except ModuleNotFoundError:
                vmod = None
            if vmod is not None:
                from sa import selftest as st
                selftest = st.run_corpus(prop, vmod.VARIANTS, repo_root=ctx.repo.root)
                print(f"{prop}: checker self-validation {selftest['passed']}/{selftest['applicable']} "
                      f"variants behaved as expected ({len(selftest['not_applicable'])} not applicable)")
                for f in selftest["failed"]:
                    print(f"  SELFTEST-MISMATCH {f['name']} expect={f['expect']} exit={f.get('exit')}")
            from sa import selftest as st2
            corp = st2.run_patch_corpus(prop, repo_root=ctx.repo.root)
            ns, nr = len(corp["seeded"]), len(corp["refactors"])
            print(f"{prop}: kept corpora -- {sum(1 for x in corp['seeded'] if x['exit'] == 1)}/{ns} breaking changes reported, "
                  f"{sum(1 for x in corp['seeded'] if x['exit'] == 2)} no verdict, {sum(1 for x in corp['seeded'] if x['exit'] == 0)} passed; "
                  f"{sum(1 for x in corp['refactors'] if x['exit'] == 0)}/{nr} behaviour-preserving changes silent, "
                  f"{sum(1 for x in corp['refactors'] if x['exit'] == 2)} no verdict, {sum(1 for x in corp['refactors'] if x['exit'] == 1)} reported")
            for m_ in corp["mismatch"]:
                print(f"  CORPUS-MISMATCH {m_}")
            if selftest is not None:
                selftest["corpus"] = {"seeded": corp["seeded"], "refactors": corp["refactors"], "mismatch": corp["mismatch"]}
        code = report.finish(col, args.tier, t0, selftest=selftest,
                             write=not args.no_evidence)
        if code == 0 and selftest and selftest["failed"] and os.environ.get("VERIF_SELFTEST_STRICT"):
            print(f"ANALYSIS-ERROR property={prop} self-validation mismatch (strict mode)")
            return 2
        return code
    except AnalysisError as e:
        if not report.strict_mode() and "anchor-vanished" in str(e) and not report.public_anchor_vanished(str(e)):
            # a private helper / local idiom the whole check hangs on is gone: nothing decided, nothing alarmed
            print(f"NO-VERDICT property={prop} {e}")
            return 0
        print(f"ANALYSIS-ERROR property={prop} {e}")
        return 2
    except Exception:  # noqa: BLE001 -- a crash of the checker is never a verdict
        traceback.print_exc()
        print(f"ANALYSIS-ERROR property={prop} checker crashed")
        return 2


if __name__ == "__main__":
    code = main()
    try:
        sys.stdout.flush()
    except Exception:  # noqa: BLE001
        pass
    try:
        sys.stdout.f.close()
    except Exception:  # noqa: BLE001
        pass
    os._exit(code)
