#!/venv/bin/python
"""Regenerate MANIFEST.json from the per-property table below."""
import json, os, sys
HERE = os.path.dirname(os.path.dirname(os.path.abspath(__file__)))
sys.path.insert(0, HERE)
from tools.manifest_table import ADDED, CLAIMED, NOT_APPLICABLE  # noqa: E402

BASELINE = "cd /repo && /venv/bin/python -m pytest -ra -q -p no:cacheprovider --timeout=900 --continue-on-collection-errors"

checks = []
for pid in sorted(CLAIMED):
    c = dict(CLAIMED[pid])
    if pid in ADDED:
        c["text"] = c["text"] + " " + ADDED[pid][0]
        c["technique"] = c["technique"] + "; " + ADDED[pid][1]
    checks.append({
        "property_id": pid,
        "quick_cmd": f"/venv/bin/python check.py {pid} --tier quick",
        "thorough_cmd": f"/venv/bin/python check.py {pid} --tier thorough",
        "evidence_file": f"/verif/evidence/{pid}.json",
        "replay_cmd_template": f"/venv/bin/python check.py {pid} --replay {{path}}",
        "engine": "sa",
        "level_claimed": {"category": "other", "text": c["text"], "design_ref": c.get("design_ref", f"DESIGN.md section 4 {pid}")},
        "level_note": c["note"],
        "technique": c["technique"],
    })
manifest = {
    "version": 1,
    "setup_cmd": "/venv/bin/python -m compileall -q sa check.py tools",
    "hooks": {
        "guard": "SWCGEOM_VERIF",
        "enable": "none needed: the checks only parse /repo's sources; no hook commit exists and the guard is unused",
        "baseline_off_cmd": BASELINE,
        "source_commits": [],
        "add_only": True,
    },
    "engines": [{
        "name": "sa", "path": "/verif/sa",
        "serves_properties": sorted(CLAIMED),
        "kind_free_text": "repository-specific static analysis over Python ast: name/class/import resolver, receiver-type inference, call graph with strong/weak edges, statement CFG, constant folder, regex-language inclusion, decision tables over comparison orderings; no repo code is imported or run",
    }],
    "checks": checks,
    "notes": "Every check decides structural necessary conditions (clauses) of its property, listed in DESIGN.md section 4 and repeated in each evidence file under coverage.explanation / not_decided; behaviour over run-time values is not claimed. exit 2 = analysis error (anchor vanished, floor not met, unresolved instance), never a verdict.",
    "not_applicable": [{"property_id": k, "reason": v} for k, v in sorted(NOT_APPLICABLE.items())],
}
with open(os.path.join(HERE, "MANIFEST.json"), "w") as f:
    json.dump(manifest, f, indent=1)
print("claimed", len(checks), "not_applicable", len(NOT_APPLICABLE))
