#!/venv/bin/python
"""Fast scoreboard over the kept corpora (no demos, no test suite: those were confirmed when the change was stored).

usage: tools/scoreboard.py [--seeded] [--refactors] [--all-props] [--root DIR] [ids or prefixes ...]

Every change is applied to a scratch copy of /repo/swcgeom (under the temp dir, removed at once) and the check of its
property (or, with --all-props, of every property) is run in strict mode (exit 2 = noticed without verdict).
  seeded/     exit 1 = reported, 2 = no verdict, 0 = missed
  refactors/  exit 0 = silent, 2 = no verdict, 1 = FALSE ALARM
--root DIR: a directory of <name>/{patch.diff,meta.json} other than /verif/seeded (e.g. a fresh wave under /tmp).
Results: /tmp/scoreboard.json
"""
import json
import os
import shutil
import subprocess
import sys
import tempfile
from concurrent.futures import ThreadPoolExecutor

HERE = os.path.dirname(os.path.dirname(os.path.abspath(__file__)))
PY = "/venv/bin/python"
PROPS = [f"C{i:02d}" for i in range(1, 21)]


def one(kind, name, path, props):
    tmp = tempfile.mkdtemp(prefix="swcgeom_sb_")
    try:
        shutil.copytree("/repo/swcgeom", os.path.join(tmp, "swcgeom"), ignore=shutil.ignore_patterns("__pycache__", "*.pyc"))
        r = subprocess.run(["patch", "-p1", "--no-backup-if-mismatch", "-s", "-i", os.path.join(path, "patch.diff")], cwd=tmp,
                           capture_output=True, text=True)
        if r.returncode != 0:
            return {"kind": kind, "name": name, "error": "patch does not apply"}
        out = {"kind": kind, "name": name, "checks": {}}
        for p in props:
            r = subprocess.run([PY, os.path.join(HERE, "check.py"), p, "--repo", tmp, "--no-evidence"], capture_output=True, text=True,
                               timeout=600, env={**os.environ, "VERIF_SELFTEST_CHILD": "1", "VERIF_STRICT": "1"})
            lines = [l for l in r.stdout.splitlines() if ": VIOLATION --" in l or ": UNRESOLVED --" in l or l.startswith("ANALYSIS-ERROR")]
            lines.sort(key=lambda l: 0 if ": VIOLATION --" in l else 1)
            out["checks"][p] = {"exit": r.returncode, "lines": [l[:400] for l in lines[:6]]}
        return out
    finally:
        shutil.rmtree(tmp, ignore_errors=True)


def main():
    argv = sys.argv[1:]
    allp = "--all-props" in argv
    root = None
    if "--root" in argv:
        root = argv[argv.index("--root") + 1]
        argv.remove(root)
    sel = [a for a in argv if not a.startswith("--")]
    kinds = [k for k in ("seeded", "refactors") if "--" + k in argv] or ["seeded", "refactors"]
    jobs = []
    roots = [(root, "seeded" if "--refactors" not in argv else "refactors")] if root else [(os.path.join(HERE, k), k) for k in kinds]
    for rt, kind in roots:
        for dp, _, files in sorted(os.walk(rt)):
            if "patch.diff" in files and "meta.json" in files:
                name = os.path.relpath(dp, rt)
                if sel and not any(name.startswith(s) for s in sel):
                    continue
                meta = json.load(open(os.path.join(dp, "meta.json")))
                if meta.get("superseded"):
                    continue   # kept for the record only: its premise went away with a later repair of /repo
                prop = meta.get("property") or meta.get("breaks") or name[:3]
                jobs.append((kind, name, dp, PROPS if allp else [prop]))
    with ThreadPoolExecutor(max_workers=16) as ex:
        res = list(ex.map(lambda a: one(*a), jobs))
    json.dump(res, open("/tmp/scoreboard.json", "w"), indent=1)
    tally = {}
    for r, j in zip(res, jobs):
        if "error" in r:
            print(f"{r['kind']:<9} {r['name']:<10} ERROR {r['error']}")
            continue
        own = j[3][0] if not allp else (json.load(open(os.path.join(j[2], "meta.json"))).get("property") or r["name"][:3])
        for p, c in r["checks"].items():
            key = (r["kind"], c["exit"], p == own)
            tally[key] = tally.get(key, 0) + 1
            interesting = (r["kind"] == "seeded" and p == own and c["exit"] != 1) or (r["kind"] == "refactors" and c["exit"] == 1) \
                or (r["kind"] == "seeded" and p != own and c["exit"] == 1)
            if interesting or "--verbose" in argv:
                tag = {("seeded", 0): "MISSED", ("seeded", 2): "no-verdict", ("seeded", 1): "reported",
                       ("refactors", 1): "FALSE-ALARM", ("refactors", 0): "silent", ("refactors", 2): "no-verdict"}.get((r["kind"], c["exit"]), str(c["exit"]))
                print(f"{r['kind']:<9} {r['name']:<10} [{p}] {tag}")
                for l in c["lines"][:3]:
                    print(f"      {l[:300]}")
    print("tally (kind, exit, own-property):")
    for k in sorted(tally):
        print("  ", k, tally[k])


if __name__ == "__main__":
    main()
