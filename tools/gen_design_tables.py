#!/venv/bin/python
"""Rewrite the generated tables of DESIGN.md (between <!-- X-BEGIN --> / <!-- X-END --> markers) from the
confirmation records kept in seeded/*/meta.json and refactors/*/meta.json (written by tools/seed_validate.py --record)."""
import json
import os
import re

HERE = os.path.dirname(os.path.dirname(os.path.abspath(__file__)))


def rule_of(lines):
    for l in lines or []:
        m = re.search(r" (R-[A-Z0-9]+) \[", l)
        if m and ": VIOLATION --" in l:
            return m.group(1)
    for l in lines or []:
        m = re.search(r" (R-[A-Z0-9]+) \[", l)
        if m:
            return m.group(1) + " (unresolved)"
    return "-"


def short(s, n):
    s = " ".join((s or "").split()).replace("|", "\\|")
    return s if len(s) <= n else s[: n - 1] + "…"


def seeded():
    rows, caught, total = [], 0, 0
    for d in sorted(os.listdir(os.path.join(HERE, "seeded"))):
        mp = os.path.join(HERE, "seeded", d, "meta.json")
        if not os.path.exists(mp):
            continue
        m = json.load(open(mp))
        c = m.get("confirmed", {})
        total += 1
        caught += 1 if c.get("caught") else 0
        verdict = "**VIOLATION**" if c.get("check_exit") == 1 else ("no verdict" if c.get("check_exit") == 2 else "missed")
        rows.append(f"| {d} | {short(m.get('site', ''), 60)} | {short(m.get('summary', ''), 150)} | {verdict} | {rule_of(c.get('check_lines'))} |")
    waves = {}
    for d in sorted(os.listdir(os.path.join(HERE, "seeded"))):
        mp = os.path.join(HERE, "seeded", d, "meta.json")
        if os.path.exists(mp):
            m = json.load(open(mp))
            w = str(m.get("wave", "1"))
            c = m.get("confirmed", {})
            t = waves.setdefault(w, [0, 0, 0])
            t[0] += 1
            t[1] += 1 if c.get("caught") else 0
            t[2] += 1 if str(m.get("blind_check_exit", "")) == "1" else 0
    per_wave = "; ".join(f"wave {w}: {t[1]}/{t[0]}" + (f" (blind: {t[2]})" if t[2] else "") for w, t in sorted(waves.items(), key=lambda kv: (len(kv[0]), kv[0])))
    head = (f"{total} changes are kept (two per property and wave, every property by a different agent in every wave; the breaking waves are 1, 3, 4, 5, 8, 9, 10, 12, 14, 15 and 17); "
            f"**{caught} are reported as VIOLATION** by the check of their property, "
            f"{total - caught} are not reported (no verdict: the change is noticed as a shape the rule cannot judge; or missed). Reported / kept per wave on the current checks"
            f" (in brackets: reported at first sight, before any rule was built from the wave): {per_wave}.\n\n"
            "| seed | site | what it breaks | check of its property | rule |\n|---|---|---|---|---|\n")
    return head + "\n".join(rows)


def refactors():
    rows, cnt = [], {}
    for d in sorted(os.listdir(os.path.join(HERE, "refactors"))):
        mp = os.path.join(HERE, "refactors", d, "meta.json")
        if not os.path.exists(mp):
            continue
        m = json.load(open(mp))
        c = m.get("confirmed", {})
        det = c.get("detection", "?") if not m.get("superseded") else "superseded by a later repair of /repo (not run)"
        cnt[det] = cnt.get(det, 0) + 1
        rows.append(f"| {d} | {short(m.get('site', m.get('summary', '')), 70)} | {det} |")
    head = "Result on the current checks: " + ", ".join(f"{v} × {k}" for k, v in sorted(cnt.items())) + ".\n\n| refactoring | site | check of its property |\n|---|---|---|\n"
    return head + "\n".join(rows)


def main():
    p = os.path.join(HERE, "DESIGN.md")
    s = open(p).read()
    for tag, fn in (("SEEDED-TABLE", seeded), ("REFACTOR-TABLE", refactors)):
        b, e = f"<!-- {tag}-BEGIN -->", f"<!-- {tag}-END -->"
        if b in s and e in s:
            s = s[: s.index(b) + len(b)] + "\n" + fn() + "\n" + s[s.index(e):]
        elif f"{tag}-PLACEHOLDER" in s:
            s = s.replace(f"{tag}-PLACEHOLDER", f"\n\n{b}\n{fn()}\n{e}\n")
    open(p, "w").write(s)


if __name__ == "__main__":
    main()
