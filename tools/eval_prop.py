#!/venv/bin/python
"""One-property scoreboard while developing a check:  tools/eval_prop.py Cxx [Cyy ...]

  variants   self-validation corpus (sa/variants): fire-variants that fire / silent ones that stay silent
  seeds      breaking changes by independent sub-agents (seeded/, /tmp/seed3_out): exit 1 = caught
  refactors  behaviour-preserving rewrites by sub-agents (refactors/, /tmp/refac_out): exit 0 = silent,
             exit 2 = no verdict, exit 1 = FALSE ALARM
"""
import importlib
import json
import os
import subprocess
import sys
import tempfile
import shutil
from concurrent.futures import ThreadPoolExecutor

HERE = os.path.dirname(os.path.dirname(os.path.abspath(__file__)))
sys.path.insert(0, HERE)
from sa import selftest  # noqa: E402

PY = "/venv/bin/python"


def run_patch(prop, patch):
    tmp = tempfile.mkdtemp(prefix="evalp_")
    try:
        dst = os.path.join(tmp, "repo")
        shutil.copytree("/repo/swcgeom", os.path.join(dst, "swcgeom"), ignore=shutil.ignore_patterns("__pycache__", "*.pyc"))
        r = subprocess.run(["patch", "-p1", "--no-backup-if-mismatch", "-i", patch], cwd=dst, capture_output=True, text=True)
        if r.returncode != 0:
            return None, ["patch does not apply"]
        r = subprocess.run([PY, os.path.join(HERE, "check.py"), prop, "--repo", dst, "--no-evidence"], capture_output=True, text=True,
                           timeout=600, env={**os.environ, "VERIF_SELFTEST_CHILD": "1"})
        lines = [l for l in r.stdout.splitlines() if ": VIOLATION --" in l or ": UNRESOLVED --" in l or l.startswith("ANALYSIS-ERROR")]
        return r.returncode, lines
    finally:
        shutil.rmtree(tmp, ignore_errors=True)


def collect(roots, prop, sub):
    out = []
    for root in roots:
        if not os.path.isdir(root):
            continue
        for d, _, files in sorted(os.walk(root)):
            if "patch.diff" in files and "meta.json" in files:
                try:
                    m = json.load(open(os.path.join(d, "meta.json")))
                except Exception:  # noqa: BLE001
                    continue
                if (m.get("property") or m.get("breaks")) == prop:
                    out.append((os.path.relpath(d, root), os.path.join(d, "patch.diff")))
    return out


def main():
    verbose = "-v" in sys.argv
    for prop in [a.upper() for a in sys.argv[1:] if not a.startswith("-")]:
        try:
            vm = importlib.import_module(f"sa.variants.{prop.lower()}")
            res = selftest.run_corpus(prop, vm.VARIANTS)
            fires = [r for r in res["results"] if r["expect"] == "fire"]
            sil = [r for r in res["results"] if r["expect"] == "silent"]
            print(f"{prop} variants: fire {sum(1 for r in fires if r['ok'])}/{len(fires)}  silent {sum(1 for r in sil if r['ok'])}/{len(sil)}")
            for f in res["failed"]:
                print(f"     variant {f['name'][:60]:<60} expect={f['expect']} exit={f.get('exit')}" + (f"  {f['lines'][0][:150]}" if verbose and f.get('lines') else ""))
        except ModuleNotFoundError:
            pass
        seeds = collect([os.path.join(HERE, "seeded")], prop, "m")
        refs = collect([os.path.join(HERE, "refactors")], prop, "r")
        with ThreadPoolExecutor(max_workers=8) as ex:
            sres = list(ex.map(lambda s: run_patch(prop, s[1]), seeds))
            rres = list(ex.map(lambda s: run_patch(prop, s[1]), refs))
        print(f"{prop} seeds: caught {sum(1 for c, _ in sres if c == 1)}/{len(seeds)}   " +
              " ".join(f"{n}:{'CAUGHT' if c == 1 else ('exit2' if c == 2 else 'missed')}" for (n, _), (c, _) in zip(seeds, sres)))
        if verbose:
            for (n, _), (c, ls) in zip(seeds, sres):
                for l in ls[:3]:
                    print(f"     [{n} exit={c}] {l[:230]}")
        print(f"{prop} refactors: silent {sum(1 for c, _ in rres if c == 0)}/{len(refs)}  " +
              " ".join(f"{n}:{'ok' if c == 0 else ('FALSE-ALARM' if c == 1 else 'exit2')}" for (n, _), (c, _) in zip(refs, rres)))
        for (n, _), (c, ls) in zip(refs, rres):
            if c != 0:
                for l in ls[:6 if verbose else 2]:
                    print(f"     [{n} exit={c}] {l[:230]}")


if __name__ == "__main__":
    main()
