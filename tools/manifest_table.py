"""Per-property manifest texts (edited by hand; MANIFEST.json is generated)."""

ASSUME = ("Trusted base: CPython's ast module and the rule implementations under /verif/sa; "
          "Python semantics of the modelled constructs; the premises of the property itself. "
          "Decides only the structural clauses named; run-time values are not claimed.")

CLAIMED = {
    "C01": {
        "technique": "AST table agreement + constant folding + regex-language inclusion (DFA product) + decision table",
        "text": "Static check of the writer/reader pair: column tables of SWCNames, swc_cols, parse_swc (regex/converter/keys), Tree.__init__ and from_data_frame agree position-wise; the language of rows the writer can emit (folded from its format spec, separator and terminator) is included in the reader's row regex by DFA product; four-decimal fixed format; every yielded line ends in a newline; the writer's header is dropped by the reader's comment filter (folded), id-offset decision table keeps the -1 root marker; source-kind union covered by the reader ladder. Exhaustive over all instances found in the source; necessary conditions of the round trip, not the numeric equality.",
        "note": ASSUME,
    },
    "C02": {
        "technique": "exception-propagation analysis over CFG + call graph (context-manager __exit__ abstraction), path classification of the line loop",
        "text": "For every raise site of the reader (invalid row, decode error, converter failure) the enclosing try/with chain and every strong call path up to read_swc / Tree.from_swc / LazyLoadingTrees is walked: no context manager whose __exit__ can return a truthy value, no handler that completes without raising. All CFG paths through the per-line loop body are enumerated and classified (row / comment / raise / blank / filtered header); an effect-free path is a violation. This is the 'never returns a shortened table' clause for every position of a bad line.",
        "note": ASSUME,
    },
}

NOT_BUILT = "check not built yet in this round (planned, see DESIGN.md section 4); nothing is claimed"
NOT_APPLICABLE = {f"C{i:02d}": NOT_BUILT for i in range(1, 21) if f"C{i:02d}" not in CLAIMED}
