"""Per-property manifest texts (edited by hand; MANIFEST.json is generated)."""

ASSUME = ("Trusted base: CPython's ast module and the rule implementations under /verif/sa; "
          "Python semantics of the modelled constructs; the premises of the property itself. "
          "Decides only the structural clauses named; run-time values are not claimed. The source is analysed in a canonical form (sa/normal.py) with the "
          "local names of the tree the rule instances were confirmed on (sa/names.py, sa/reference/locals.json: a name-translation table, it decides nothing). "
          "An instance the analysis cannot decide (another way of writing the anchored code, a restructured function) is printed as UNRESOLVED / NO-VERDICT "
          "and listed in the evidence; it is neither a pass nor an alarm and does not change the exit status; exit 1 only for a definite violation, exit 2 only "
          "for a broken analysis (DESIGN.md sections 1 and 14).")

CLAIMED = {
    "C01": {
        "technique": "AST table agreement + constant folding + regex-language inclusion (DFA product) + decision table",
        "text": "Static check of the writer/reader pair: column tables of SWCNames, swc_cols, parse_swc (regex/converter/keys), Tree.__init__ and from_data_frame agree position-wise; the language of rows the writer can emit (folded from its format spec, separator and terminator) is included in the reader's row regex by DFA product; four-decimal fixed format; every yielded line ends in a newline; the writer's header is dropped by the reader's comment filter (folded), id-offset decision table keeps the -1 root marker; source-kind union covered by the reader ladder. Exhaustive over all instances found in the source; necessary conditions of the round trip, not the numeric equality. What read_swc returned reaches the Tree constructor unchanged (def-use: no re-binding, slicing or editing of the table or the comment list in between); no narrowing cast (8/16-bit integers, float16) on the read / construction path.",
        "note": ASSUME,
    },
    "C02": {
        "technique": "exception-propagation analysis over CFG + call graph (context-manager __exit__ abstraction), path classification of the line loop",
        "text": "For every raise site of the reader (invalid row, decode error, converter failure) the enclosing try/with chain and every strong call path up to read_swc / Tree.from_swc / LazyLoadingTrees is walked: no context manager whose __exit__ can return a truthy value, no handler that completes without raising. All CFG paths through the per-line loop body are enumerated and classified (row / comment / raise / blank / filtered header); an effect-free path is a violation. This is the 'never returns a shortened table' clause for every position of a bad line. Sorting clause: sort_nodes_ and sort_nodes_impl are matched statement by statement (traversal from the root, children looked up by id, old id -> row position through a dict), and a row-order kind inference (file order / permuted order / permutation / order-free, one set of kinds per path) decides that the ids and parent ids stored into the permuted frame are in the permuted order on every path; the node count handed to the Tree constructor must be a number of rows, not a function of id values. The reader iterates a universal-newline text handle opened with the requested encoding (a `newline=` option is a violation), the line loop iterates the handle itself, and no hand-split text with its last piece dropped; no narrowing cast on the read path; no binary search in an unsorted id column.",
        "note": ASSUME,
    },
    "C03": {
        "technique": "ownership / freshness abstract interpretation (interprocedural, callbacks expanded) + CFG must-pass-through + write-set lint",
        "text": "Every tree->tree operation is discovered from annotations (tree_utils functions, Transform subclasses, Node.subtree, copy) and interpreted over an ownership domain: abstract values carry the set of input trees whose storage or object they may share; callees, property setters, traversal kernels and callbacks are expanded on demand with the abstract arguments; a numpy view/copy table separates views from allocations. Verdict per operation: no store through an alias of an input (inputs untouched) and the returned tree is a fresh object with every column and the comment list freshly allocated (no shared storage). Topology-changing operations must pass a renumbering routine on every path to a return (CFG must-pass-through over resolved callees); geometric operations store only to x/y/z (or r). Pipelines follow by composition. Sub-tree extraction keeps the start node first (ids in traversal order; a sort of them is a violation). No option is accepted and ignored (an unused parameter while a callee has a parameter of the same name that is not passed). Re-rooting reaches every return through the `if sort` decision (CFG must-pass).",
        "note": ASSUME + " numpy view/copy table and copy.deepcopy semantics as listed in the evidence file.",
    },
    "C04": {
        "technique": "call-graph cycle check (receiver-class-sensitive) + frame-discipline rules on the DFS kernel's AST",
        "text": "Recursion-freedom of everything strongly reachable from swc_utils.traverse, Tree.traverse and Tree.Node.traverse (callbacks excluded as user code) gives a constant interpreter stack depth at any tree depth. The explicit-stack kernel is checked for the obligations that make it structural recursion: LIFO pop, leave frame pushed below the child frames, exactly one enter and one leave call site per frame outside inner loops, the child receives the value its parent's enter returned, leave receives one popped value per child from the same child list, the start node's value is returned, children map keyed by parent id; the Tree/Node wrappers forward both callbacks and the root.",
        "note": ASSUME,
    },
    "C05": {
        "technique": "AST def-use rules on the renumbering kernel (counter discipline, uniform gather) + call-graph cycle check",
        "text": "The permutation computed by one sort_nodes_impl call is applied to the whole key set of the table / tree (df.columns, every ndata key: extra columns are carried) and ids/parent ids are overwritten by that call's new topology; in the kernel one pop fills one slot, the id counter is read for the slot and as the children's new parent before its single unconditional +1 and is never decreased (hence parent id < child id and ids 0..n-1), children are the rows whose parent id equals the popped id, and the row index is old-id -> old-position through a dict (ids never index arrays). Recursion-free.",
        "note": ASSUME,
    },
    "C06": {
        "technique": "AST def-use / sentinel rules, decision tables by constant folding, CFG must-pass, call-graph cycle check, ownership interpretation",
        "text": "Structural clauses of subtree extraction and pruning: the survivors' columns are gathered for the source's whole key set with the one old-id mapping returned by the compaction call, id/pid come from that call, and the reported mapping (list or dict form) is filled from the same value; the start node's parent is reset to -1 on every path to the return; compaction filters ids and parents with the same keep mask, builds old->new after filtering, maps -1 to -1; the removal marker is negative and not -1 and is inherited by descendants through the traversal's enter value; selection rules (pre-order descendants from the start node, exactly the given ids marked, cut_tree enter/leave wrappers, CutByType ancestor-keeping, furcation-order level table and cut threshold) are decided as small decision tables; recursion-free; source untouched and result fresh (ownership interpreter).",
        "note": ASSUME,
    },
    "C07": {
        "technique": "ownership interpretation + AST def-use rules (shift pair, sentinel restore, axis-family substitution) + CFG must-pass",
        "text": "Re-rooting: works on a copy (ownership interpreter), collects the chain new root -> old root by following parents, stores only pid and type (exactly three stores: root marker, two-end type exchange, reversal of the chain's parent pointers). Concatenation: both inputs copied, second tree re-rooted at its junction without renumbering, the three translation statements are one family under the x->y->z substitution, id and parent id of the second tree are shifted by the same expression (the first tree's node count), link/removal targets are computed before the shift and cover the shifted root marker in both the merge and the non-merge arm, columns are appended first-tree-first for every key, and every return passes the renumbering routine. Node positions are never compared with a relative tolerance (np.allclose / isclose with rtol != 0 on .xyz() operands). The coincidence test compares a distance with the tolerance: a squared distance against the unsquared tolerance is a violation.",
        "note": ASSUME,
    },
    "C08": {
        "technique": "def-use rule on the post-order accumulator (pending-chain flush) + child-count decision tables (constant folding over k = 0..4)",
        "text": "The branch accumulation is checked as an accumulator protocol: pass-through <=> exactly one child (table), a pass-through node extends the open chain, every other node closes one branch per child chain and opens a new chain, and the chain still open at the outermost call must be consumed into a branch (the stem of a one-child root). All copies of the child-count predicates (Tree.get_furcations, Node.is_furcation, tips, CutShortTipBranch, Node.branch) are tabulated over k = 0..4 and compared with 'two or more' / 'none' / 'exactly one'. Paths: each node's path is a copy of its parent's plus itself, tips return their own path. Branch tree: end nodes parented to start nodes, original branches filed under the new id of their start. The decompositions are recursion-free (no strong call-graph cycle from get_branches / get_paths / get_furcations / get_tips / BranchTree.from_tree / ToLongestPath); the longest path is picked among the root-to-tip paths of the decomposition. Nothing computed from the tree is kept on the tree / path / branch object (R-MEMO: no method outside construction stores to self).",
        "note": ASSUME,
    },
    "C09": {
        "technique": "index-space typing of view constructions (receiver-type inference with Generic parameter binding) + ownership interpretation + decision tables for index normalisation",
        "text": "Every construction of a Node/Path/Branch/Compartment view in the package is typed: an .id/.pid read from a node of a view is an id of the view's owner and may not be used as a position inside the view. Accessors of all sibling view classes are owner.get_ndata(key)[idx]; node properties read and write the same column. Ownership interpreter: the tree's accessor returns the owner's storage, a store through a tree node reaches it, detach() of every view class and copy() return storage disjoint from the original. The integer-index arms of Tree/Path/population are folded over keys {-7,-6,-5,-1,0,4,5,6} at n=5 against the normalisation table; slices go through slice.indices(len). Navigation: children are found by a scan of the parent column by value, the parent by id, both as handles on the same owner. No binary search in an id / parent-id column. Cache lint: no view caches what it read from its owner; any cache whose key omits an input of the cached value is a violation; caches not confirmed by reading are UNRESOLVED. Nothing read from the owner is kept on a view or tree object (R-MEMO).",
        "note": ASSUME,
    },
    "C10": {
        "technique": "dispatch-table resolution, return/raise discipline lint, decision table over orderings (Sholl), geometric-type abstract interpretation (kind x degree) of every observable, polynomial identities and def-use wiring rules for the definitions, child-count decision tables",
        "text": "Every feature name of the front end is resolved with the front end's own lookup logic to an existing evaluator (deprecated names to raising stubs). Every value-annotated measure returns on every non-raising path and raises only exceptions. The Sholl straddle predicate of both copies is tabulated over all 13 weak orderings of (end a, end b, radius): strict straddle <=> counted (ties with the radius are a convention and left free), copies agree. Every observable (55: tree/path/branch lengths, distances, tortuosity, radial distance, angles, L-Measure quantities, areas, volumes, counts) is interpreted over a geometric type domain (position / displacement / component / scalar / count with a degree): the result must be a pose-independent scalar or count of the degree its definition has. Definitions: partition asymmetry, circle/sphere/cylinder formulas as exact polynomial identities; counts, lengths, contraction, tortuosity, radial distance, branch order, path/Euclidean distance, bifurcation vectors and angles are wired to the quantities their definitions name; furcation/tip child-count predicates tabulated over k = 0..4 in every copy; population rows are one per tree, zero-padded to the longest. Numerical agreement of values is not decided. Cache lint (a value kept under a key must be determined by it: key omits a parameter / is a projection of the object used / decorator cache on a file read) and accepted-and-ignored option lint over the analysis modules; the cached_property sites of today's tree are listed with reasons. The zero guard of a quotient is on the divisor (division-guard rule, path conditions); nothing is memoised on tree / path objects (R-MEMO); a cache key made of option NAMES only does not determine a value computed from the option values (R-CACHEKEY).",
        "note": ASSUME,
    },
    "C11": {
        "technique": "geometric-type abstract interpretation (kind x degree, interprocedural summaries, closures) over all observables + centring rule on the Sholl constructor + numbering-dependence lint (recurrence along row order) with kept positive examples",
        "text": "All 55 observables of the morphometric layer are interpreted over (kind, degree): absolute positions may enter only through differences, a norm of an absolute position, a sum of positions, a single coordinate or an unreduced vector reaching an observable is a violation (pose dependence), and the degree of the result must be the one of its definition (lengths 1, areas 2, volumes 3, ratios/angles/counts 0: the scaling clause); comparisons and sums of unlike degrees are violations. The Sholl radii, their extent and the sampling radii are typed as lengths of displacements of the root-centred copy. Numbering: no loop of the morphometric layer walks the rows in storage order while reading, at the row's parent, an array it fills in that loop (a recurrence that is right only when parents are numbered first); the lint keeps positive examples that must match on every run. Rounding and sibling-order dependence are not decided. A comparison of absolute positions with a relative tolerance (np.allclose / isclose with rtol != 0) is a violation of translation independence unless it is conjoined with the comparison of the radii in the volumetric primitives (triaged, structural exemption). No method of a geometry-carrying class (Tree, Node, Path, Branch, Compartment, SWCLike) stores to self outside construction and setters: copies are deep and coordinates are overwritten in place, so a memoised observable goes stale. The geometry helpers behind get_volume are orientation independent (R-LINE: a fixed helper direction must be excluded from both directions of the normal).",
        "note": ASSUME + " numpy operations keep the geometric kind as tabulated in sa/geo.py.",
    },
    "C12": {
        "technique": "abstract shape inference (broadcast / matmul), product-order rule with the vector convention read from the code, literal-matrix layout tables, axis-family substitution, ownership interpretation",
        "text": "Matrix builders: abstract shapes show every builder returns (4,4) with no definite broadcast or inner-dimension error; each literal matrix is abstracted cell by cell to {0,1,cos,+-sin,+-param} and compared with the definition (translation column, scale diagonal, right-handed axis rotations, cross-product matrix and the three signed Rodrigues terms). Centre conjugation: the product chain (.dot / @ / np.dot / multi_dot) is flattened, its factors classified by the sign of their translate3d arguments relative to the centre expression, and compared with the order required by the vector convention that `apply` itself uses; the centre expression must be the root's position. apply(): x,y,z,w stacking, perspective divide, rows 0..2 stored to x,y,z of a copy as one axis family, nothing else stored; each transform class wires its own parameters to its own builder. No option (e.g. `center`) is accepted and ignored by a wrapper while the wrapped constructor has it.",
        "note": ASSUME,
    },
    "C18": {
        "technique": "API-existence check against the installed numpy stubs (ast-parsed .pyi), sentinel discipline lint, decision tables by constant folding (union by rank, bifurcation predicate), dispatch exhaustiveness, call-graph cycle check",
        "text": "All numpy attribute chains of the modules of this property are resolved against the installed numpy stubs; arithmetic on the parent-id column must be masked against -1 or followed by a restore of every -1 row; the union-by-rank ladder is tabulated over the three orderings of the two ranks (smaller re-parented; equal: one re-parented, new root's rank +1), find compresses paths, is_same_set compares roots; the bifurcation predicate is tabulated over children 0..4 x root x exclude_root against 'reject iff children >= 3 and not exempt root'; the fix_roots literal and its match arms agree with a raising default and a 'several roots' guard; checker skeletons (single root, cyclic, sorted, component labelling through an id->position dict) and root-repair steps are matched; the only recursion is find_parent, bounded by the rank. Definite recognisers: a shortcut that answers from a non-strict comparison of the id and parent-id columns (admits a self-parent), relabelling a merged component with a row index instead of its label, a row label used where the row position is required.",
        "note": ASSUME + " The installed numpy stubs describe the installed numpy.",
    },
    "C19": {
        "technique": "single-pass-iterable consumption lint joined with call-graph argument kinds, cache typestate rule, who-may-call check, bisect decision table",
        "text": "Every Iterable/Iterator parameter of the population module is checked for being consumed at most once unless first rebound to a materialised copy; several passes become a violation when a strong call site passes a generator/map/zip/filter (otherwise reported as latent). The per-file cache slot has a single writer, guarded by `slot is None` with the same key and filled from the same-numbered file; indexing is normalise -> load -> read; construction creates empty slots only. Only the loader calls the file readers in the module, and the loader is reached only from indexing and the explicit eager arm; Population's constructor probes at most element 0. Chain indexing is tabulated over cumsum[mid] ? idx (bisect-right), member lo-1 at offset idx - cumsum[lo-1]. Multi-directory rows share one list object of common relative paths; rows and map preserve order (no unordered executor API). Definite recognisers on top of the anchored statements: an unconditional loader, a second loader built over another loader's file list, prefix sums over a filtered member list, a raw (un-normalised) key compared with the prefix sums, eager loading reachable with lazy_loading=True (guards folded), reversed/sorted/unordered iteration of members, str.strip with a character set on file paths; _get_idx is interpreted over keys {-n-1,-n,-1,0,n-1,n}. Cache lint (a memo keyed by `tree.source` while the value is computed from the tree is a violation) and accepted-and-ignored option lint.",
        "note": ASSUME + " Executor.map / process_map return results in input order.",
    },
    "C20": {
        "technique": "dtype-conversion arm lint, table-key normalisation lint, axes-permutation agreement by constant folding",
        "text": "Only the structural clauses of the save/load half are decided: in both dtype-conversion blocks every arm must rebind the array by plain assignment to an expression of the requested dtype (an augmented assignment is a violation) with the scale factor in the right direction; every subscript of the unsigned-maximum table must be an np.dtype and the table must map uintN to 2**N-1; the axes string written by save_tiff must equal (X,Y,Z,C) permuted by the constant moveaxis applied before writing, the reader's argsort over its axis table must map that string back to (X,Y,Z,C), the fallback layout must be the writer's, rasterised frames are stacked along axis 0 and sampled at voxel centres. What tifffile/pynrrd persist and the rasteriser's voxel membership are not decided. Rasteriser: the bounding box is floor(min(xyz - r)) .. ceil(max(xyz + r)) (a rounding in another direction is a violation), samples start half a voxel from the lower corner per axis and a per-axis triple built from another axis' component is a violation, one sampler per z step, one rounded cone per (parent, child) edge, the callback hands the node to its parent; the reader's transpose argument is evaluated as a permutation of the writer's axes string. Cache lint: a decorator cache on a function that reads a file keeps contents under the file name (violation). Saving or wrapping a stack does not write into the array handed in (R-INPLACE: out=, augmented assignment, subscript store or in-place method through the parameter or a numpy view of it).",
        "note": ASSUME,
    },
    "C13": {
        "technique": "AST-to-polynomial translation (exact rational functions) with identity checking against the definitions; cell-wise symbolic evaluation of the case analysis over the hyperplane arrangement of all guards; role/def-use rules; dispatch-ladder tables",
        "text": "Every closed form (sphere, cap, frustum, two-sphere lens, the two unions) is translated from its AST into an exact rational function over (r, h, d, pi) and compared with the definition's formula as a polynomial identity (every coefficient and exponent; degree 3). The case analysis of the two composite forms is decided cell by cell: one exact rational witness per cell of the arrangement formed by all guard hyperplanes (the code's and the definition's), guards folded at the witness, the expression returned by the branch taken compared symbolically with the formula the definition prescribes for that cell (disjoint / tangent / overlapping / nested / coincident spheres, both operand orders; sphere on the smaller or larger end, short or tall frustum, side leaving the sphere or not). Role rules tie the symbols to the geometry (centre distance, frustum height, the other end's radius, exit height and radius, the slant line); the line-sphere intersection and point projection helpers are checked as formal identities over dot products; the dispatch ladders give closed forms exactly to the operand pairs named, sphere first. Floating-point error, the eps tolerance and the sampled fallback are not decided. Geometric typing (kind x degree) of the closed forms and their wrappers: centres enter only through differences and every length argument has degree 1. Operand typing: every construction of a composite (sphere/frustum union or intersection) passes operands of the classes the composite is declared over, as established by `self` and the enclosing isinstance test; each conjunct of the concentric guard compares centre and radius of the same end. An end of a frustum is the centre and radius of the same end (R-PAIR lint); a centre comparison with a relative tolerance never stands alone (conjoined with the radius comparison).",
        "note": ASSUME + " The textbook formulas are taken as the definition of the true volume.",
    },
    "C14": {
        "technique": "finite gating table by constant folding (levels 1..9 x child counts 0..3), inclusion-exclusion coefficient table, def-use rules on the accumulator, plus the polynomial/cell-wise checks of the primitives",
        "text": "The per-node accumulation is parsed into signed terms over the atoms S (node sphere), C (frustum to a child), K (child sphere): for every analytic level 1..9 and child count 0..3 the guards are folded and the multiset of signed terms is compared with the definition (level 1: spheres; level 2: spheres + frusta; levels >= 3: inclusion-exclusion, optionally with the pairwise frustum correction); level 10 goes to the sampling routine; named levels map into 3..9. Net coefficients at level >= 3 under the property's premise (lens of neighbouring spheres inside their frustum): S +1, C +1, S&C -1, K&C -1, S&K 0. Atoms are what the definition says (sphere = node position and radius; frustum from the node to each child; child sphere and frustum paired by position); every node contributes once and hands its sphere to its parent. The closed forms being summed are decided by the same polynomial-identity and cell-wise rules as C13, including which end of the frustum a sphere sits on. The leave callback reads its children's results and must return the node's sphere on every path (a None return is a violation). Cache lint over volume.py and the volumetric primitives; the discriminant's root-count table (exact sign, no tolerance). R-PAIR and the conjoined-tolerance rule as in C13; no relative tolerance on positions in the per-node volume walk (R-RTOLPOS).",
        "note": ASSUME + " Premise of the property: compartments at least as long as their end radii; non-adjacent parts do not touch.",
    },
    "C15": {
        "technique": "parser typestate by abstract interpretation (bracket depth, explicit-stack height, look-ahead token-type sets; loop fixpoints, recursion by summary iteration) + call-graph cycle check + def-use rules on the conversion walk + table agreement + exception-propagation rules",
        "text": "Every method of the ASC parser is interpreted over an abstract state (bracket depth relative to the explicit split stack, stack height 0/1/many, set of possible types of the look-ahead token, token-valued locals); branch conditions on token types refine the sets, loops are iterated to a fixpoint, self-recursion is summarised. Obligations: each parse method has exactly one net bracket effect, the document parser returns only at depth 0 (so a split consumes its own closing bracket and a truncated document is rejected), end of input inside a construct ends in an error. The conversion path is recursion-free (branch length and nesting depth do not grow the interpreter stack). The conversion walk allocates one id per point (read, then a single +1), appends each column once, records the parent handed down in the frame, hands its own id to its children, passes the parent through headers, skips colours/comments, and numbers points in document order (LIFO frames, children pushed reversed); a point is four numbers and a closing bracket stored as x, y, z, r; alternatives of a split hang on the point before the split; labels accepted by the parser equal labels mapped to node types; parse errors are re-raised on every path. The lexer's number grammar is not decided. Ordering: the point's id is read before the counter's increment and the recorded parent is appended before the id is handed to the children; def-use: the parent id pushed for the children is re-bound after the frame is popped.",
        "note": ASSUME,
    },
    "C16": {
        "technique": "abstract shape inference (rank of concatenate operands), argument-discipline check over the call-graph slice, symmetric-trim rule, write-set / interior-slice lint, axis-family agreement, ownership interpretation",
        "text": "Structural clauses of resampling and smoothing: every operand of np.concatenate in the resamplers has rank >= 1; generic code reachable from the resampler/smoother/assembler calls soma() only with type_check=False; the assembler drops one sample iff the branch's start (resp. end) point duplicates the tree node, none otherwise, and then appends the end node; smoothers store only x,y,z and only the interior 1:-1 of a detached copy; x,y,z and r are interpolated at the same positions over the same abscissae; n = ceil(L/spacing)+1 positions from 0 to L (linspace / arange + end point), per branch of the branch tree; re-assembly numbers nodes by output position with parent = predecessor, first node on the start node's new id, children continuing from the end node's new id; inputs untouched, results fresh. Equal spacing, 'length never grows' and linear radii as numeric statements are not decided.",
        "note": ASSUME,
    },
    "C17": {
        "technique": "axis-role inference from the statements consuming the arg-min pair + broadcast-alignment rule + decision table",
        "text": "Only structural clauses: the roles of the arg-min pair are read from `(i, j) = unravel_index(...)` and `pid[child] = parent`; the balancing term `factor * accumulated length` must be broadcast along the parent's axis of the cost matrix (a rank-1 vector aligns with the last axis); the pair is used consistently (child count, path length = parent's + edge, connected flag, mask rows/columns); point 0 is the root with parent -1; n-1 attachments; the branching-limit test is tabulated over count?limit x root x exempt; PointsToMST passes the constant factor 0. Minimality of the total length and the greedy selection over the run-time cost matrix are NOT decided (no sound static argument in reach).",
        "note": ASSUME,
    },
}

NOT_BUILT = "check not built yet in this round (planned, see DESIGN.md section 4); nothing is claimed"
NOT_APPLICABLE = {f"C{i:02d}": NOT_BUILT for i in range(1, 21) if f"C{i:02d}" not in CLAIMED}


# Rules added in the third build round (DESIGN.md section 15): appended to the texts above by tools/gen_manifest.py
ADDED = {
    "C01": ("Also: the ownership interpretation treats `a[mask] op= e` as a store into `a` (masked writes into the tree's own column are reported); comment lines are a sequence (no de-duplicating container, no unlimited split at the comment mark).",
            "ownership interpretation of masked in-place writes + comment-path construct lint"),
    "C02": ("Also: the language of the reader's row regex, as applied (search / match, anchors), is included in the lines made of digits, signs, dots, exponent markers and blanks (automata product) -- a wildcard tail or a dropped anchor is reported; the regex is followed into a helper that compiles it; an in-memory text stream without newline translation is reported; the row permutation covers every column.",
            "regex-language inclusion (row language) + folding through helper functions"),
    "C03": ("Also: nothing is kept on tree objects (R-MEMO), root-ness is not decided by position (R-ROOTPOS), id/parent columns are not sliced by a node position (R-ROWSLICE), pointer jumping is not bounded by floor(log2 n) rounds (R-ROUNDS); setattr / __dict__ stores on an input count as writes.",
            "construct lints with kept positive examples (root by position, row slices, doubling rounds)"),
    "C04": ("Also: nothing is kept on the tree between traversals (R-MEMO), the children index is built from every row (no slice of the id/parent columns by the start node), the index table of Tree.__getitem__ (handles carry normalised positions).",
            "row-slice lint + decision table of the index normalisation"),
    "C05": ("Also: the id re-basing step never precedes the renumbering on any CFG path of read_swc (R-SEQ); binary search only in tables sorted by construction (R-SORTED).",
            "CFG reachability between the two normalisation calls"),
    "C06": ("Also: the mirrored recurrence (a row writes its parent's slot depending on its own) is a numbering dependence (R-ORDER); Node.subtree starts at the node's id; setattr stores on the source are writes (R-PURE); R-MEMO, R-ROOTPOS, R-ROWSLICE, R-ROUNDS.",
            "numbering-dependence lint (both directions) + ownership interpretation of attribute stores"),
    "C07": ("Also: root-ness is never decided by comparing a node id with 0 (R-ROOTPOS); R-MEMO.", "root-by-position lint"),
    "C08": ("Also: no class-level mutable default is filled through instances (R-SHARED).", "shared-default lint"),
    "C09": ("Also: the column accessor returns the stored array itself (no may-copy wrapper); slice objects held in fields index as views; the index table follows a shared normalisation helper.",
            "ownership interpretation with slice-object fields + table evaluation through helper calls"),
    "C10": ("Also: cache keys are compared by the SETS of attributes of an object that key and value read (a key over tree.source / node count does not determine a value computed from tree.id / tree.pid), containers filled after allocation belong to the value; R-ROWSLICE.",
            "cache-key projection-set comparison"),
    "C11": ("Also: the plane helper is folded exactly at one witness normal per pattern of signs / zeros / order of magnitudes of its components (146 witnesses): the result is never the zero vector (NaN) and always perpendicular; degeneracy tests on lengths are scale invariant (R-ATOL); R-SORTED on the read path.",
            "exact folding of vector routines at sign/order witnesses (sa/vecfold.py)"),
    "C12": ("Also: stores through a local alias of self.<matrix> (np.asarray without copy, views) are state changes (R-STATE, reaching definitions on the CFG); a numeric option is never defaulted with `or` (R-FALSY); more sign-blind functions in the axis dependence rule.",
            "alias-aware state lint on the CFG"),
    "C13": ("Also: the two-sphere case analysis accepts any way of writing the centre distance (squared first, root later); abs / min / max arguments and squared guards are faces of the arrangement, so a guard that is wrong only between two curves gets its own exact witness; the plane helper table; R-ATOL.",
            "semialgebraic cell decomposition by sign vectors of all guard polynomials"),
    "C14": ("Also: the plane helper table and R-ATOL (shared with C11/C13).", "exact folding at witnesses"),
    "C16": ("Also: no quotient by the difference of consecutive abscissae without precaution (R-ZEROLEN); branches and end nodes are paired one-to-one, no per-row arg-min (R-ONE2ONE).",
            "zero-length-segment lint + one-to-one pairing lint"),
    "C17": ("Also: the constructor stores the branching limit unchanged for k = 1, 2, 3, 7, -1 (folded); a late re-binding of an option is dead (R-LATEBIND, liveness); the stored path length is compared BY VALUE with parent's length + edge (element-wise reading of broadcast expressions as polynomials); distances come from coordinate differences, not a Gram matrix (R-DIST); the soma is not cast to the cloud's dtype.",
            "element-wise polynomial value of stored expressions + liveness on the CFG"),
    "C18": ("Also: the label table of the nearest-root repair is updated for the whole linked component after every link (R-RELABEL); R-ROUNDS.", "loop-body store classification"),
    "C19": ("Also: directory listings do not paste the directory into a glob pattern (R-GLOB); every container normalises its key against its own length.", "glob construct lint"),
    "C20": ("Also: axis kinds (X, Y, Z, per-axis triple, pure number) are interpreted over the sampler set-up: no mixing of axes (R-AXISKIND); the sampler generator is folded exactly at witness boxes (whole / half / fractional number of voxel layers, anisotropic voxels): one slice per voxel centre at the right depth (R-SLICES).",
            "axis-kind abstract interpretation + exact folding of the generator at witness boxes"),
}

# rules added in the third / fourth build rounds after the text above was written (DESIGN.md sections 15 and 16)
ADDED2 = {
    "C01": ("The extended column header (a tree written with extra columns) is folded through the reader's comment filter as well (R-HDR); a constant text is returned for a float cell only for values that round to it (R-CELLCONST); R-COMMENT over split / de-duplicate / filter of comment lines.",
            "exact folding of the writer's header through the reader's filter at two witness column sets"),
    "C02": ("Lenient decoding (errors=...) and a single-precision staging buffer in the parser are reported; the table gather keys are shared with C05.", "construct lints on the decoding / buffer path"),
    "C03": ("A '#' line never matches the row regex and the row regex matches only white space outside its groups (R-ROWTEXT); every constructor path binds its own comment list (R-OWNLIST); a handle taken before a re-binding copy is not used afterwards (R-STALE); "
            "no loop counter takes over a name that is read after the loop (R-LOOPVAR, reaching definitions); end points of a branch are not addressed by position after filtering (R-ENDPOINTS).",
            "NFA of the folded row pattern + reaching-definition lints on the CFG"),
    "C04": ("A callback's value is never truth-tested (R-OPAQUE); no valid node index reaches a `raise IndexError` (guards folded for 1, 2, 5 nodes, R-IDXGUARD); the start node is not special-cased (R-STARTGUARD).",
            "taint of callback values + exact folding of index guards"),
    "C05": ("In-place permutation of a column while it is still read (R-INPLACEPERM); R-ENDPOINTS.", "store/read order lint"),
    "C06": ("The caller's mapping is emptied before it is filled on every path (R-OUTCLEAR, CFG must-pass); a one-shot iterable is walked once (R-ITER); the subtree order keeps the start node first (R-SUBORDER); R-LOOPVAR.",
            "CFG must-pass of clear() before every store into the out-parameter"),
    "C07": ("R-STALE over re-rooting / concatenation handles.", "stale-handle lint"),
    "C08": ("Negative positions are not used as ids (R-NEGIDX); R-ENDPOINTS.", "index-kind lint"),
    "C09": ("Own-keyed columns travel with `names=` (R-NAMESFWD); no valid index is refused (R-IDXGUARD); the index table is evaluated through shared helper functions and methods; R-OWNLIST.",
            "constructor-call lint for column names + exact folding of index guards"),
    "C10": ("The Sholl count is folded exactly along chains of samples inside / on / outside the sphere (R-SHOLLCHAIN: tie-convention-free consistency, through helper methods and vectorised forms); intersect(r) never reaches the deprecated self.step (R-SHOLLARG).",
            "exact folding of the counting predicate over all sign patterns of short chains"),
    "C11": ("R-SHOLLCHAIN (a sample exactly on a sphere is not counted twice: the profile would change with the pose); per-tip and per-path arrays are only combined when enumerated the same way (R-ORDERKIND).",
            "enumeration-kind abstract interpretation over the feature classes"),
    "C12": ("The matrix built for centre='root' is compared entry by entry with T(c) M T(-c) over symbolic 4x4 matrices (sa/matsym.py) before the factor rule is consulted.", "symbolic 4x4 matrix evaluation over exact polynomials"),
    "C13": ("No signed component along an axis oriented by the frustum's own ends (R-AXISSIGN); root counts use the routine's own tolerances at witnesses +-1e-9; R-FALSY over the volume code.",
            "orientation taint of the axis vector"),
    "C14": ("R-FALSY over the volume code (a radius of 0 is a value); R-NORMAXIS (norms are taken along the coordinate axis).", "construct lints"),
    "C15": ("Order parity of the explicit stack (children reach a LIFO through an odd number of reversals, traced through list(), comprehensions and starred unpacking; R-LIFO).", "reversal-parity tracing"),
    "C16": ("The spacing is never compared with a chord (R-CHORD); interpolated values go to a floating buffer, not one of the input's dtype (R-BUFDTYPE); end points of a resampled branch are not removed by position (R-TRIMPOS); total-length quotient in R-ZEROLEN.",
            "measure-kind and buffer-dtype lints"),
    "C17": ("The soma joins the cloud by a promoting operation, never by a cast-on-write (R-SOMACAST); squared distances through a Gram matrix are reported (R-DIST).", "numpy cast-on-write table"),
    "C18": ("is_sorted examines every row (R-ALLROWS; defect D22 repaired); connectivity is never answered from the number of root markers (R-CONNDEF: guard folded at zero markers); the relabelled value is the joined component's label; R-DOUBLING.",
            "exact folding of early-exit guards"),
    "C19": ("ChainTrees.__getitem__ is folded exactly for every layout of member sizes 0..2 with up to four members and every index (R-CHAINVAL), whatever search is used (loop, bisect, searchsorted).",
            "exact folding of the lookup over all small member layouts"),
    "C20": ("Every reader the dispatcher returns receives the requested dtype (R-DISPATCH, sibling agreement); the slice count is folded at witness boxes (R-SLICES).", "sibling-agreement rule over the dispatcher's returns"),
}
for _k, (_t, _m) in ADDED2.items():
    if _k in ADDED:
        ADDED[_k] = (ADDED[_k][0] + " " + _t, ADDED[_k][1] + "; " + _m)
    else:
        ADDED[_k] = ("Also: " + _t, _m)

# fourth round, second half (waves 15-17)
ADDED3 = {
    "C01": ("A value is flushed to zero before formatting only when it rounds to zero (R-CELLCONST); no os.path function on a source that may be a stream (R-PATHIO).", "guard folding + stream/path kind lint"),
    "C02": ("Lines come from the file object, never from str.splitlines() (R-SPLITLINES); an Iterable option is consumed once (R-ITER2); re-based parent ids are not clipped at -1 (R-CLIP); R-PATHIO.",
            "construct lints on the line source and the options"),
    "C03": ("Removal marks are propagated before renumbering on every path (R-PROPAGATE, CFG must-pass).", "CFG must-pass of propagate_removal"),
    "C04": ("Every callback gets its own node handle (R-FRESHNODE).", "handle re-pointing lint"),
    "C05": ("Rows are moved column by column, not through one whole-frame array (R-FRAMECAST).", "whole-frame conversion lint"),
    "C07": ("An index array built from a list that may be empty carries an integer dtype (R-EMPTYIDX); junctions coincide in all coordinates, not in the smallest gap (R-COINCIDE); the two root types are exchanged crosswise (R-TYPESWAP).",
            "construct lints on the junction test and the type exchange"),
    "C08": ("Node.branch is folded over all rooted trees of up to six nodes and every start node (R-BRANCHVAL, sa/objfold.py).", "interpretation of the walk over abstract node handles of witness trees"),
    "C09": ("A detached view carries every column (R-ALLCOLS); copy() re-creates what subclasses add (R-COPYDEEP).", "constructor-argument and copy-method lints"),
    "C10": ("R-BRANCHVAL (Node.branch by value); counts written as arithmetic over other counts are folded over all small trees (R-COUNTVAL).", "exact folding over all rooted trees of up to six nodes"),
    "C11": ("The writer keeps decimals, not significant digits (R-ABSPREC); pair terms range over all pairs of siblings (R-ALLPAIRS).", "format-spec and pair-iteration lints"),
    "C12": ("Columns are addressed through the tree's own column names (R-COLNAME).", "literal column-key lint"),
    "C14": ("R-ALLPAIRS over the sibling-cone term.", "pair-iteration lint"),
    "C15": ("The words that become numbers are plain decimal numerals: L(regex test as applied) intersected with L(float()) is included in the numerals (R-NUMLANG, product of three automata); defect D23 found by it and repaired.",
            "regular-language inclusion over the product automaton"),
    "C16": ("The last new abscissa is the interpolation table's last entry, not a separately rounded sum (R-TOTALSRC).", "def-use lint between np.interp's table and the linspace / arange end"),
    "C17": ("Squared differences are not accumulated in the cloud's integer dtype (R-SQDTYPE).", "dtype-provenance lint"),
    "C18": ("Union links representatives only (R-REPR); R-CLIP; pointer doubling through a temporary and under a predicate helper (R-DOUBLING).", "store-operand provenance lint"),
    "C19": ("Prefix sums and member list are the same sequence (R-CHAINSRC); Iterable arguments of the containers are consumed once (R-ITER2; defect D24 found by it and repaired).",
            "def-use comparison of the two sequences + consumption count"),
    "C20": ("No in-place result in an array that may still be the caller's (R-OUTARG, reaching definitions); the channel count is read only after the channel axis exists (R-CHANAXIS, CFG dominance).",
            "reaching definitions + dominance on the CFG of save_tiff"),
}
for _k, (_t, _m) in ADDED3.items():
    ADDED[_k] = (ADDED[_k][0] + " " + _t, ADDED[_k][1] + "; " + _m) if _k in ADDED else ("Also: " + _t, _m)

ADDED4 = {
    "C04": ("The traversal is folded over all rooted trees of up to six nodes with recording callbacks (R-TRAVVAL, sa/objfold.py): the property's clauses are read off the call log.",
            "interpretation of the traversal over witness trees with analysis-supplied callbacks"),
    "C18": ("is_bifurcate is folded over all rooted trees of up to seven nodes and two-rooted forests (R-BIFVAL).", "exact folding over all small parent tables"),
    "C15": ("A colour marker never becomes the chain end, helpers included (R-COLOURLINK).", "return-provenance lint"),
    "C09": ("A collection reads every element from its own owner (R-EACHOWNER).", "owner-of-first-element lint"),
    "C16": ("Degeneracy is decided on the arc length, interpolators tolerate repeated abscissae (R-DEGENERATE).", "end-point test / interpolator lint"),
}
for _k, (_t, _m) in ADDED4.items():
    ADDED[_k] = (ADDED[_k][0] + " " + _t, ADDED[_k][1] + "; " + _m) if _k in ADDED else ("Also: " + _t, _m)
