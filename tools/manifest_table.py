"""Per-property manifest texts (edited by hand; MANIFEST.json is generated)."""

ASSUME = ("Trusted base: CPython's ast module and the rule implementations under /verif/sa; "
          "Python semantics of the modelled constructs; the premises of the property itself. "
          "Decides only the structural clauses named; run-time values are not claimed.")

CLAIMED = {
    "C01": {
        "technique": "AST table agreement + constant folding + regex-language inclusion (DFA product) + decision table",
        "text": "Static check of the writer/reader pair: column tables of SWCNames, swc_cols, parse_swc (regex/converter/keys), Tree.__init__ and from_data_frame agree position-wise; the language of rows the writer can emit (folded from its format spec, separator and terminator) is included in the reader's row regex by DFA product; four-decimal fixed format; every yielded line ends in a newline; the writer's header is dropped by the reader's comment filter (folded), id-offset decision table keeps the -1 root marker; source-kind union covered by the reader ladder. Exhaustive over all instances found in the source; necessary conditions of the round trip, not the numeric equality.",
        "note": ASSUME,
    },
    "C02": {
        "technique": "exception-propagation analysis over CFG + call graph (context-manager __exit__ abstraction), path classification of the line loop",
        "text": "For every raise site of the reader (invalid row, decode error, converter failure) the enclosing try/with chain and every strong call path up to read_swc / Tree.from_swc / LazyLoadingTrees is walked: no context manager whose __exit__ can return a truthy value, no handler that completes without raising. All CFG paths through the per-line loop body are enumerated and classified (row / comment / raise / blank / filtered header); an effect-free path is a violation. This is the 'never returns a shortened table' clause for every position of a bad line.",
        "note": ASSUME,
    },
    "C03": {
        "technique": "ownership / freshness abstract interpretation (interprocedural, callbacks expanded) + CFG must-pass-through + write-set lint",
        "text": "Every tree->tree operation is discovered from annotations (tree_utils functions, Transform subclasses, Node.subtree, copy) and interpreted over an ownership domain: abstract values carry the set of input trees whose storage or object they may share; callees, property setters, traversal kernels and callbacks are expanded on demand with the abstract arguments; a numpy view/copy table separates views from allocations. Verdict per operation: no store through an alias of an input (inputs untouched) and the returned tree is a fresh object with every column and the comment list freshly allocated (no shared storage). Topology-changing operations must pass a renumbering routine on every path to a return (CFG must-pass-through over resolved callees); geometric operations store only to x/y/z (or r). Pipelines follow by composition.",
        "note": ASSUME + " numpy view/copy table and copy.deepcopy semantics as listed in the evidence file.",
    },
    "C04": {
        "technique": "call-graph cycle check (receiver-class-sensitive) + frame-discipline rules on the DFS kernel's AST",
        "text": "Recursion-freedom of everything strongly reachable from swc_utils.traverse, Tree.traverse and Tree.Node.traverse (callbacks excluded as user code) gives a constant interpreter stack depth at any tree depth. The explicit-stack kernel is checked for the obligations that make it structural recursion: LIFO pop, leave frame pushed below the child frames, exactly one enter and one leave call site per frame outside inner loops, the child receives the value its parent's enter returned, leave receives one popped value per child from the same child list, the start node's value is returned, children map keyed by parent id; the Tree/Node wrappers forward both callbacks and the root.",
        "note": ASSUME,
    },
    "C05": {
        "technique": "AST def-use rules on the renumbering kernel (counter discipline, uniform gather) + call-graph cycle check",
        "text": "The permutation computed by one sort_nodes_impl call is applied to the whole key set of the table / tree (df.columns, every ndata key: extra columns are carried) and ids/parent ids are overwritten by that call's new topology; in the kernel one pop fills one slot, the id counter is read for the slot and as the children's new parent before its single unconditional +1 and is never decreased (hence parent id < child id and ids 0..n-1), children are the rows whose parent id equals the popped id, and the row index is old-id -> old-position through a dict (ids never index arrays). Recursion-free.",
        "note": ASSUME,
    },
    "C06": {
        "technique": "AST def-use / sentinel rules, decision tables by constant folding, CFG must-pass, call-graph cycle check, ownership interpretation",
        "text": "Structural clauses of subtree extraction and pruning: the survivors' columns are gathered for the source's whole key set with the one old-id mapping returned by the compaction call, id/pid come from that call, and the reported mapping (list or dict form) is filled from the same value; the start node's parent is reset to -1 on every path to the return; compaction filters ids and parents with the same keep mask, builds old->new after filtering, maps -1 to -1; the removal marker is negative and not -1 and is inherited by descendants through the traversal's enter value; selection rules (pre-order descendants from the start node, exactly the given ids marked, cut_tree enter/leave wrappers, CutByType ancestor-keeping, furcation-order level table and cut threshold) are decided as small decision tables; recursion-free; source untouched and result fresh (ownership interpreter).",
        "note": ASSUME,
    },
    "C07": {
        "technique": "ownership interpretation + AST def-use rules (shift pair, sentinel restore, axis-family substitution) + CFG must-pass",
        "text": "Re-rooting: works on a copy (ownership interpreter), collects the chain new root -> old root by following parents, stores only pid and type (exactly three stores: root marker, two-end type exchange, reversal of the chain's parent pointers). Concatenation: both inputs copied, second tree re-rooted at its junction without renumbering, the three translation statements are one family under the x->y->z substitution, id and parent id of the second tree are shifted by the same expression (the first tree's node count), link/removal targets are computed before the shift and cover the shifted root marker in both the merge and the non-merge arm, columns are appended first-tree-first for every key, and every return passes the renumbering routine.",
        "note": ASSUME,
    },
    "C08": {
        "technique": "def-use rule on the post-order accumulator (pending-chain flush) + child-count decision tables (constant folding over k = 0..4)",
        "text": "The branch accumulation is checked as an accumulator protocol: pass-through <=> exactly one child (table), a pass-through node extends the open chain, every other node closes one branch per child chain and opens a new chain, and the chain still open at the outermost call must be consumed into a branch (the stem of a one-child root). All copies of the child-count predicates (Tree.get_furcations, Node.is_furcation, tips, CutShortTipBranch, Node.branch) are tabulated over k = 0..4 and compared with 'two or more' / 'none' / 'exactly one'. Paths: each node's path is a copy of its parent's plus itself, tips return their own path. Branch tree: end nodes parented to start nodes, original branches filed under the new id of their start.",
        "note": ASSUME,
    },
    "C09": {
        "technique": "index-space typing of view constructions (receiver-type inference with Generic parameter binding) + ownership interpretation + decision tables for index normalisation",
        "text": "Every construction of a Node/Path/Branch/Compartment view in the package is typed: an .id/.pid read from a node of a view is an id of the view's owner and may not be used as a position inside the view. Accessors of all sibling view classes are owner.get_ndata(key)[idx]; node properties read and write the same column. Ownership interpreter: the tree's accessor returns the owner's storage, a store through a tree node reaches it, detach() of every view class and copy() return storage disjoint from the original. The integer-index arms of Tree/Path/population are folded over keys {-7,-6,-5,-1,0,4,5,6} at n=5 against the normalisation table; slices go through slice.indices(len).",
        "note": ASSUME,
    },
    "C12": {
        "technique": "abstract shape inference (broadcast / matmul), product-order rule with the vector convention read from the code, literal-matrix layout tables, axis-family substitution, ownership interpretation",
        "text": "Matrix builders: abstract shapes show every builder returns (4,4) with no definite broadcast or inner-dimension error; each literal matrix is abstracted cell by cell to {0,1,cos,+-sin,+-param} and compared with the definition (translation column, scale diagonal, right-handed axis rotations, cross-product matrix and the three signed Rodrigues terms). Centre conjugation: the product chain (.dot / @ / np.dot / multi_dot) is flattened, its factors classified by the sign of their translate3d arguments relative to the centre expression, and compared with the order required by the vector convention that `apply` itself uses; the centre expression must be the root's position. apply(): x,y,z,w stacking, perspective divide, rows 0..2 stored to x,y,z of a copy as one axis family, nothing else stored; each transform class wires its own parameters to its own builder.",
        "note": ASSUME,
    },
    "C18": {
        "technique": "API-existence check against the installed numpy stubs (ast-parsed .pyi), sentinel discipline lint, decision tables by constant folding (union by rank, bifurcation predicate), dispatch exhaustiveness, call-graph cycle check",
        "text": "All numpy attribute chains of the modules of this property are resolved against the installed numpy stubs; arithmetic on the parent-id column must be masked against -1 or followed by a restore of every -1 row; the union-by-rank ladder is tabulated over the three orderings of the two ranks (smaller re-parented; equal: one re-parented, new root's rank +1), find compresses paths, is_same_set compares roots; the bifurcation predicate is tabulated over children 0..4 x root x exclude_root against 'reject iff children >= 3 and not exempt root'; the fix_roots literal and its match arms agree with a raising default and a 'several roots' guard; checker skeletons (single root, cyclic, sorted, component labelling through an id->position dict) and root-repair steps are matched; the only recursion is find_parent, bounded by the rank.",
        "note": ASSUME + " The installed numpy stubs describe the installed numpy.",
    },
    "C19": {
        "technique": "single-pass-iterable consumption lint joined with call-graph argument kinds, cache typestate rule, who-may-call check, bisect decision table",
        "text": "Every Iterable/Iterator parameter of the population module is checked for being consumed at most once unless first rebound to a materialised copy; several passes become a violation when a strong call site passes a generator/map/zip/filter (otherwise reported as latent). The per-file cache slot has a single writer, guarded by `slot is None` with the same key and filled from the same-numbered file; indexing is normalise -> load -> read; construction creates empty slots only. Only the loader calls the file readers in the module, and the loader is reached only from indexing and the explicit eager arm; Population's constructor probes at most element 0. Chain indexing is tabulated over cumsum[mid] ? idx (bisect-right), member lo-1 at offset idx - cumsum[lo-1]. Multi-directory rows share one list object of common relative paths; rows and map preserve order (no unordered executor API).",
        "note": ASSUME + " Executor.map / process_map return results in input order.",
    },
    "C20": {
        "technique": "dtype-conversion arm lint, table-key normalisation lint, axes-permutation agreement by constant folding",
        "text": "Only the structural clauses of the save/load half are decided: in both dtype-conversion blocks every arm must rebind the array by plain assignment to an expression of the requested dtype (an augmented assignment is a violation) with the scale factor in the right direction; every subscript of the unsigned-maximum table must be an np.dtype and the table must map uintN to 2**N-1; the axes string written by save_tiff must equal (X,Y,Z,C) permuted by the constant moveaxis applied before writing, the reader's argsort over its axis table must map that string back to (X,Y,Z,C), the fallback layout must be the writer's, rasterised frames are stacked along axis 0 and sampled at voxel centres. What tifffile/pynrrd persist and the rasteriser's voxel membership are not decided.",
        "note": ASSUME,
    },
    "C13": {
        "technique": "AST-to-polynomial translation (exact rational functions) with identity checking against the definitions; cell-wise symbolic evaluation of the case analysis over the hyperplane arrangement of all guards; role/def-use rules; dispatch-ladder tables",
        "text": "Every closed form (sphere, cap, frustum, two-sphere lens, the two unions) is translated from its AST into an exact rational function over (r, h, d, pi) and compared with the definition's formula as a polynomial identity (every coefficient and exponent; degree 3). The case analysis of the two composite forms is decided cell by cell: one exact rational witness per cell of the arrangement formed by all guard hyperplanes (the code's and the definition's), guards folded at the witness, the expression returned by the branch taken compared symbolically with the formula the definition prescribes for that cell (disjoint / tangent / overlapping / nested / coincident spheres, both operand orders; sphere on the smaller or larger end, short or tall frustum, side leaving the sphere or not). Role rules tie the symbols to the geometry (centre distance, frustum height, the other end's radius, exit height and radius, the slant line); the line-sphere intersection and point projection helpers are checked as formal identities over dot products; the dispatch ladders give closed forms exactly to the operand pairs named, sphere first. Floating-point error, the eps tolerance and the sampled fallback are not decided.",
        "note": ASSUME + " The textbook formulas are taken as the definition of the true volume.",
    },
    "C14": {
        "technique": "finite gating table by constant folding (levels 1..9 x child counts 0..3), inclusion-exclusion coefficient table, def-use rules on the accumulator, plus the polynomial/cell-wise checks of the primitives",
        "text": "The per-node accumulation is parsed into signed terms over the atoms S (node sphere), C (frustum to a child), K (child sphere): for every analytic level 1..9 and child count 0..3 the guards are folded and the multiset of signed terms is compared with the definition (level 1: spheres; level 2: spheres + frusta; levels >= 3: inclusion-exclusion, optionally with the pairwise frustum correction); level 10 goes to the sampling routine; named levels map into 3..9. Net coefficients at level >= 3 under the property's premise (lens of neighbouring spheres inside their frustum): S +1, C +1, S&C -1, K&C -1, S&K 0. Atoms are what the definition says (sphere = node position and radius; frustum from the node to each child; child sphere and frustum paired by position); every node contributes once and hands its sphere to its parent. The closed forms being summed are decided by the same polynomial-identity and cell-wise rules as C13, including which end of the frustum a sphere sits on.",
        "note": ASSUME + " Premise of the property: compartments at least as long as their end radii; non-adjacent parts do not touch.",
    },
    "C15": {
        "technique": "parser typestate by abstract interpretation (bracket depth, explicit-stack height, look-ahead token-type sets; loop fixpoints, recursion by summary iteration) + call-graph cycle check + def-use rules on the conversion walk + table agreement + exception-propagation rules",
        "text": "Every method of the ASC parser is interpreted over an abstract state (bracket depth relative to the explicit split stack, stack height 0/1/many, set of possible types of the look-ahead token, token-valued locals); branch conditions on token types refine the sets, loops are iterated to a fixpoint, self-recursion is summarised. Obligations: each parse method has exactly one net bracket effect, the document parser returns only at depth 0 (so a split consumes its own closing bracket and a truncated document is rejected), end of input inside a construct ends in an error. The conversion path is recursion-free (branch length and nesting depth do not grow the interpreter stack). The conversion walk allocates one id per point (read, then a single +1), appends each column once, records the parent handed down in the frame, hands its own id to its children, passes the parent through headers, skips colours/comments, and numbers points in document order (LIFO frames, children pushed reversed); a point is four numbers and a closing bracket stored as x, y, z, r; alternatives of a split hang on the point before the split; labels accepted by the parser equal labels mapped to node types; parse errors are re-raised on every path. The lexer's number grammar is not decided.",
        "note": ASSUME,
    },
    "C16": {
        "technique": "abstract shape inference (rank of concatenate operands), argument-discipline check over the call-graph slice, symmetric-trim rule, write-set / interior-slice lint, axis-family agreement, ownership interpretation",
        "text": "Structural clauses of resampling and smoothing: every operand of np.concatenate in the resamplers has rank >= 1; generic code reachable from the resampler/smoother/assembler calls soma() only with type_check=False; the assembler drops one sample iff the branch's start (resp. end) point duplicates the tree node, none otherwise, and then appends the end node; smoothers store only x,y,z and only the interior 1:-1 of a detached copy; x,y,z and r are interpolated at the same positions over the same abscissae; n = ceil(L/spacing)+1 positions from 0 to L (linspace / arange + end point), per branch of the branch tree; re-assembly numbers nodes by output position with parent = predecessor, first node on the start node's new id, children continuing from the end node's new id; inputs untouched, results fresh. Equal spacing, 'length never grows' and linear radii as numeric statements are not decided.",
        "note": ASSUME,
    },
    "C17": {
        "technique": "axis-role inference from the statements consuming the arg-min pair + broadcast-alignment rule + decision table",
        "text": "Only structural clauses: the roles of the arg-min pair are read from `(i, j) = unravel_index(...)` and `pid[child] = parent`; the balancing term `factor * accumulated length` must be broadcast along the parent's axis of the cost matrix (a rank-1 vector aligns with the last axis); the pair is used consistently (child count, path length = parent's + edge, connected flag, mask rows/columns); point 0 is the root with parent -1; n-1 attachments; the branching-limit test is tabulated over count?limit x root x exempt; PointsToMST passes the constant factor 0. Minimality of the total length and the greedy selection over the run-time cost matrix are NOT decided (no sound static argument in reach).",
        "note": ASSUME,
    },
}

NOT_BUILT = "check not built yet in this round (planned, see DESIGN.md section 4); nothing is claimed"
NOT_APPLICABLE = {f"C{i:02d}": NOT_BUILT for i in range(1, 21) if f"C{i:02d}" not in CLAIMED}
