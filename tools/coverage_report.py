#!/venv/bin/python
"""Which functions of a property's anchor files does its check look at?  tools/coverage_report.py [Cxx ...]

For every def in the files named by the property's anchors: 'covered' when at least one rule instance of the property's
check names it (as construct or in its location), 'uncovered' otherwise.  A change inside an uncovered function cannot be
noticed by the check at all."""
import importlib
import json
import os
import sys

HERE = os.path.dirname(os.path.dirname(os.path.abspath(__file__)))
sys.path.insert(0, HERE)
from sa import report  # noqa: E402
from sa.context import Context  # noqa: E402


def main():
    props = {}
    for l in open(os.path.join(HERE, "properties.jsonl")):
        d = json.loads(l)
        props[d["id"]] = d
    want = [a.upper() for a in sys.argv[1:]] or sorted(props)
    for pid in want:
        mod = importlib.import_module(f"sa.props.{pid.lower()}")
        ctx = Context(None)
        col = report.Collector(pid)
        mod.run(ctx, col, "quick")
        files = set(props[pid]["anchors"]["files"])
        touched_q = {i.construct for i in col.instances}
        touched_loc = {}
        for i in col.instances:
            if ":" in (i.loc or ""):
                f, ln = i.loc.rsplit(":", 1)
                if ln.isdigit():
                    touched_loc.setdefault(f, set()).add(int(ln))
        unc, cov = [], 0
        # entry points named by the property (observe_at), and everything of the package they reach
        import re as _re
        ents = []
        for o in props[pid]["anchors"].get("observe_at", []):
            for tok in _re.findall(r"[A-Za-z_][A-Za-z_0-9.]*", o):
                for d in ctx.repo.all_defs():
                    q = d.qualname
                    if q.endswith("." + tok) or q.endswith("." + tok + ".__call__") or q.endswith("." + tok + ".__init__") or q.endswith("." + tok + ".transform"):
                        ents.append(d)
        reach = set(ctx.cg.reachable(ents, strengths=("strong", "weak"))) if ents and "--files" not in sys.argv else None
        for d in ctx.repo.all_defs():
            if d.is_lambda:
                continue
            if reach is not None:
                if d not in reach and not any(d.qualname.startswith(e.qualname + ".") for e in reach):
                    continue
            elif d.module.relpath not in files:
                continue
            n = d.node
            lines = set(range(n.lineno, (n.end_lineno or n.lineno) + 1))
            hit = any(q == d.qualname or q.startswith(d.qualname + ".") for q in touched_q) or bool(lines & touched_loc.get(d.module.relpath, set()))
            size = (n.end_lineno or n.lineno) - n.lineno + 1
            body = [s for s in n.body if not (isinstance(s, __import__("ast").Expr) and isinstance(s.value, __import__("ast").Constant))]
            trivial = len(body) == 1 and type(body[0]).__name__ in ("Pass", "Raise") or all(type(s).__name__ == "Expr" for s in n.body)
            if hit:
                cov += 1
            elif not trivial:
                unc.append((d.qualname.replace("swcgeom.", ""), size))
        print(f"{pid}: {cov} covered, {len(unc)} uncovered defs " + (f"reachable from {len(ents)} entry defs ({sorted({e.qualname.split('.')[-2] + '.' + e.name for e in ents})[:8]})" if reach is not None else f"in {sorted(files)}"))
        for q, s in sorted(unc, key=lambda x: -x[1])[:40]:
            print(f"      {s:4d} lines  {q}")


if __name__ == "__main__":
    main()
