#!/venv/bin/python
"""Mechanical behaviour-preserving rewrites of the whole package, to test the checks for false alarms.

usage: tools/autorefactor.py <transform>[,<transform>...] <dst-dir> [--src /repo] [--only path-substring]

Copies <src>/swcgeom (+ tests) to <dst-dir> and rewrites every module with the named AST transforms:

  rename      every function-local name (not parameters) gets an unrelated name (v<k>); closures, nonlocal handled
  suffix      same, but `x` -> `x_`
  ret         `return <expr>` -> `res_ = <expr>; return res_`
  cmp         `len(x) > k` <-> `len(x) >= k + 1`, `len(x) != 0` -> `len(x) > 0`, `a < b` -> `b > a` (scalars only: len/int literals)
  flip        `if c: A else: B` -> `if not c: B else: A`   (both arms present, no elif chain)
  early       `if c: A(return/raise/continue/break at end) else: B` -> `if c: A` ; B
  nest        a function's trailing `if c: return X` + `return Y` -> `if c: return X else: return Y`
  ann         `x = e` (first binding of a simple local) -> `x: object = e`   (annotation has no run-time effect)
  tmpcall     call arguments that are calls/subscripts/binops are hoisted: `f(g(x))` -> `a_ = g(x); f(a_)`
              (only in simple expression statements / assignments at statement level, one level, left-to-right)
  doc         adds a comment-like docstring to functions lacking one, and blank `pass`-free no-ops (shifts all line numbers)

Nothing here changes behaviour (the pinned tests are run on the result by --test).  The result is only ever
analysed, never kept: callers remove <dst-dir>.
"""
from __future__ import annotations

import ast
import copy
import os
import shutil
import subprocess
import sys


# ------------------------------------------------------------------ scope helpers

def _params(fn) -> set:
    a = fn.args
    names = {x.arg for x in a.posonlyargs + a.args + a.kwonlyargs}
    if a.vararg:
        names.add(a.vararg.arg)
    if a.kwarg:
        names.add(a.kwarg.arg)
    return names


def _own_nodes(fn):
    """nodes of fn's own scope (not descending into nested defs / lambdas / classes)"""
    todo = list(ast.iter_child_nodes(fn))
    while todo:
        n = todo.pop()
        yield n
        if isinstance(n, (ast.FunctionDef, ast.AsyncFunctionDef, ast.Lambda, ast.ClassDef)):
            continue
        todo.extend(ast.iter_child_nodes(n))


def _own_stores(fn) -> set:
    out = set()
    for n in _own_nodes(fn):
        if isinstance(n, ast.Name) and isinstance(n.ctx, (ast.Store, ast.Del)):
            out.add(n.id)
    return out


def _string_bound(fn) -> set:
    """names bound by constructs that carry the name as a string (not renamed here)"""
    out = set()
    for n in ast.walk(fn):
        if isinstance(n, (ast.MatchAs, ast.MatchStar)) and n.name:
            out.add(n.name)
        if isinstance(n, ast.MatchMapping) and n.rest:
            out.add(n.rest)
        if isinstance(n, ast.alias):
            out.add((n.asname or n.name).split(".")[0])
        if isinstance(n, ast.ExceptHandler) and n.name:
            out.add(n.name)
        if isinstance(n, (ast.FunctionDef, ast.AsyncFunctionDef, ast.ClassDef)) and n is not fn:
            out.add(n.name)
    return out


def _decl(fn, kind) -> set:
    out = set()
    for n in _own_nodes(fn):
        if isinstance(n, kind):
            out.update(n.names)
    return out


class _Renamer(ast.NodeTransformer):
    def __init__(self, old, new):
        self.old, self.new = old, new

    def _shadowed(self, fn) -> bool:
        if isinstance(fn, ast.Lambda):
            return self.old in _params(fn)
        if self.old in _params(fn):
            return True
        if self.old in _decl(fn, ast.Nonlocal):
            return False
        if self.old in _decl(fn, ast.Global):
            return True
        return self.old in _own_stores(fn) or self.old in _string_bound_shallow(fn)

    def visit_FunctionDef(self, n):
        if self._shadowed(n):
            # defaults / decorators are evaluated in the enclosing scope
            n.args.defaults = [self.visit(d) for d in n.args.defaults]
            n.args.kw_defaults = [self.visit(d) if d is not None else None for d in n.args.kw_defaults]
            n.decorator_list = [self.visit(d) for d in n.decorator_list]
            return n
        self.generic_visit(n)
        return n

    visit_AsyncFunctionDef = visit_FunctionDef

    def visit_Lambda(self, n):
        if self._shadowed(n):
            return n
        self.generic_visit(n)
        return n

    def visit_ClassDef(self, n):
        return n  # class bodies are left alone

    def visit_Name(self, n):
        if n.id == self.old:
            n.id = self.new
        return n

    def visit_Nonlocal(self, n):
        n.names = [self.new if x == self.old else x for x in n.names]
        return n


def _string_bound_shallow(fn) -> set:
    out = set()
    for n in _own_nodes(fn):
        if isinstance(n, (ast.MatchAs, ast.MatchStar)) and n.name:
            out.add(n.name)
        if isinstance(n, ast.ExceptHandler) and n.name:
            out.add(n.name)
        if isinstance(n, (ast.FunctionDef, ast.AsyncFunctionDef, ast.ClassDef)):
            out.add(n.name)
    return out


def t_rename(tree: ast.Module, opaque=True) -> ast.Module:
    counter = [0]
    module_names = {n.id for n in ast.walk(tree) if isinstance(n, ast.Name)} | {a.arg for a in ast.walk(tree) if isinstance(a, ast.arg)}

    def do(fn):
        cands = _own_stores(fn) - _params(fn) - _decl(fn, ast.Global) - _decl(fn, ast.Nonlocal) - _string_bound(fn)
        cands = {c for c in cands if c != "_" and not c.startswith("__")}
        for old in sorted(cands):
            while True:
                counter[0] += 1
                new = f"v{counter[0]}" if opaque else f"{old}_"
                if not opaque and new in module_names:
                    new = f"{old}_{counter[0]}"
                if new not in module_names:
                    break
            module_names.add(new)
            r = _Renamer(old, new)
            fn.body = [r.visit(s) for s in fn.body]
        for sub in ast.walk(fn):
            if sub is not fn and isinstance(sub, (ast.FunctionDef, ast.AsyncFunctionDef)):
                pass
        return fn

    # outermost functions first, then nested ones (their own locals)
    def walk_fns(node, depth=0):
        for ch in ast.iter_child_nodes(node):
            if isinstance(ch, (ast.FunctionDef, ast.AsyncFunctionDef)):
                do(ch)
                walk_fns(ch, depth + 1)
            else:
                walk_fns(ch, depth)

    walk_fns(tree)
    return tree


def t_suffix(tree):
    return t_rename(tree, opaque=False)


# ------------------------------------------------------------------ statement-level transforms

def _blocks(tree):
    for n in ast.walk(tree):
        for f in ("body", "orelse", "finalbody"):
            b = getattr(n, f, None)
            if isinstance(b, list) and b and isinstance(b[0], ast.stmt):
                yield n, f, b
        if isinstance(n, ast.Try):
            for h in n.handlers:
                pass


def _in_function(tree):
    """ids of statements that live inside some function"""
    ids = set()
    for fn in ast.walk(tree):
        if isinstance(fn, (ast.FunctionDef, ast.AsyncFunctionDef)):
            for n in ast.walk(fn):
                ids.add(id(n))
    return ids


def _is_generator(fn) -> bool:
    return any(isinstance(n, (ast.Yield, ast.YieldFrom)) for n in _own_nodes(fn))


def t_ret(tree):
    names = {n.id for n in ast.walk(tree) if isinstance(n, ast.Name)}
    k = [0]
    for owner, f, body in list(_blocks(tree)):
        new = []
        for s in body:
            if isinstance(s, ast.Return) and s.value is not None and not isinstance(s.value, (ast.Name, ast.Constant)):
                k[0] += 1
                nm = f"res_{k[0]}"
                while nm in names:
                    k[0] += 1
                    nm = f"res_{k[0]}"
                new.append(ast.Assign(targets=[ast.Name(id=nm, ctx=ast.Store())], value=s.value, lineno=0))
                new.append(ast.Return(value=ast.Name(id=nm, ctx=ast.Load())))
            else:
                new.append(s)
        setattr(owner, f, new)
    return tree


def _is_len(e):
    return isinstance(e, ast.Call) and isinstance(e.func, ast.Name) and e.func.id == "len" and len(e.args) == 1 and not e.keywords


def _intc(e):
    return e.value if isinstance(e, ast.Constant) and type(e.value) is int else None


class _Cmp(ast.NodeTransformer):
    def visit_Compare(self, n):
        self.generic_visit(n)
        if len(n.ops) != 1:
            return n
        a, op, b = n.left, n.ops[0], n.comparators[0]
        if _is_len(a) and _intc(b) is not None:
            k = _intc(b)
            if isinstance(op, ast.Gt):
                return ast.Compare(left=a, ops=[ast.GtE()], comparators=[ast.Constant(k + 1)])
            if isinstance(op, ast.GtE):
                return ast.Compare(left=a, ops=[ast.Gt()], comparators=[ast.Constant(k - 1)])
            if isinstance(op, ast.Lt):
                return ast.Compare(left=a, ops=[ast.LtE()], comparators=[ast.Constant(k - 1)])
            if isinstance(op, ast.LtE):
                return ast.Compare(left=a, ops=[ast.Lt()], comparators=[ast.Constant(k + 1)])
            if isinstance(op, ast.NotEq) and k == 0:
                return ast.Compare(left=a, ops=[ast.Gt()], comparators=[ast.Constant(0)])
            if isinstance(op, ast.Eq):
                return ast.Compare(left=b, ops=[ast.Eq()], comparators=[a])
        return n


def t_cmp(tree):
    return _Cmp().visit(tree)


def _terminates(body) -> bool:
    return bool(body) and isinstance(body[-1], (ast.Return, ast.Raise, ast.Continue, ast.Break))


def _neg(test):
    if isinstance(test, ast.UnaryOp) and isinstance(test.op, ast.Not):
        return test.operand
    if isinstance(test, ast.Compare) and len(test.ops) == 1:
        inv = {ast.Is: ast.IsNot, ast.IsNot: ast.Is, ast.In: ast.NotIn, ast.NotIn: ast.In, ast.Eq: ast.NotEq, ast.NotEq: ast.Eq}
        t = type(test.ops[0])
        if t in inv:
            return ast.Compare(left=test.left, ops=[inv[t]()], comparators=test.comparators)
    return ast.UnaryOp(op=ast.Not(), operand=test)


def t_flip(tree):
    for n in ast.walk(tree):
        if isinstance(n, ast.If) and n.orelse and not (len(n.orelse) == 1 and isinstance(n.orelse[0], ast.If)):
            # do not touch `if isinstance(...)`-style narrowing?  semantics are the same either way
            n.test, n.body, n.orelse = _neg(n.test), n.orelse, n.body
    return tree


def t_early(tree):
    changed = True
    while changed:
        changed = False
        for owner, f, body in list(_blocks(tree)):
            new = []
            for s in body:
                if isinstance(s, ast.If) and s.orelse and _terminates(s.body) and not (len(s.orelse) == 1 and isinstance(s.orelse[0], ast.If)):
                    rest = s.orelse
                    s.orelse = []
                    new.append(s)
                    new.extend(rest)
                    changed = True
                else:
                    new.append(s)
            setattr(owner, f, new)
    return tree


def t_nest(tree):
    for owner, f, body in list(_blocks(tree)):
        if len(body) >= 2 and isinstance(body[-2], ast.If) and not body[-2].orelse and _terminates(body[-2].body) \
                and isinstance(body[-1], (ast.Return, ast.Raise)) and isinstance(owner, (ast.FunctionDef, ast.AsyncFunctionDef)):
            body[-2].orelse = [body[-1]]
            setattr(owner, f, body[:-1])
    return tree


def t_ann(tree):
    for fn in ast.walk(tree):
        if not isinstance(fn, (ast.FunctionDef, ast.AsyncFunctionDef)):
            continue
        seen = set(_params(fn)) | _decl(fn, ast.Global) | _decl(fn, ast.Nonlocal)
        new = []
        for s in fn.body:
            if isinstance(s, ast.Assign) and len(s.targets) == 1 and isinstance(s.targets[0], ast.Name) and s.targets[0].id not in seen:
                seen.add(s.targets[0].id)
                new.append(ast.AnnAssign(target=s.targets[0], annotation=ast.Name(id="object", ctx=ast.Load()), value=s.value, simple=1))
            else:
                for n in ast.walk(s):
                    if isinstance(n, ast.Name) and isinstance(n.ctx, ast.Store):
                        seen.add(n.id)
                new.append(s)
        fn.body = new
    return tree


def _pure_hoistable(e) -> bool:
    return isinstance(e, (ast.Call, ast.Subscript, ast.BinOp, ast.Attribute)) and not any(
        isinstance(x, (ast.Yield, ast.YieldFrom, ast.Await, ast.NamedExpr, ast.Lambda, ast.Starred)) for x in ast.walk(e))


def t_tmpcall(tree):
    names = {n.id for n in ast.walk(tree) if isinstance(n, ast.Name)}
    k = [0]

    def fresh():
        while True:
            k[0] += 1
            nm = f"arg_{k[0]}"
            if nm not in names:
                names.add(nm)
                return nm

    infn = _in_function(tree)
    for owner, f, body in list(_blocks(tree)):
        new = []
        for s in body:
            call = None
            if id(s) in infn and isinstance(s, ast.Assign) and isinstance(s.value, ast.Call):
                call = s.value
            elif id(s) in infn and isinstance(s, ast.Return) and isinstance(s.value, ast.Call):
                call = s.value
            elif id(s) in infn and isinstance(s, ast.Expr) and isinstance(s.value, ast.Call):
                call = s.value
            if call is not None and not call.keywords and isinstance(call.func, (ast.Name, ast.Attribute)) \
                    and not (isinstance(call.func, ast.Attribute) and not isinstance(call.func.value, ast.Name)):
                # evaluation order: func name/attribute lookup on a plain name first, then args left to right;
                # hoisting ALL args in order before the call keeps the order (the callee lookup has no side effect)
                if call.args and all(not isinstance(a, ast.Starred) for a in call.args) and any(_pure_hoistable(a) for a in call.args) \
                        and all(isinstance(a, (ast.Name, ast.Constant)) or _pure_hoistable(a) for a in call.args):
                    pre, args = [], []
                    for a in call.args:
                        if _pure_hoistable(a):
                            nm = fresh()
                            pre.append(ast.Assign(targets=[ast.Name(id=nm, ctx=ast.Store())], value=a, lineno=0))
                            args.append(ast.Name(id=nm, ctx=ast.Load()))
                        else:
                            args.append(a)
                    # names (not constants) before a hoisted arg could be rebound by the hoisted call? only via nonlocal: ignore plain names
                    call.args = args
                    new.extend(pre)
            new.append(s)
        setattr(owner, f, new)
    return tree


def t_doc(tree):
    for fn in ast.walk(tree):
        if isinstance(fn, (ast.FunctionDef, ast.AsyncFunctionDef)) and not ast.get_docstring(fn):
            fn.body.insert(0, ast.Expr(value=ast.Constant("Implementation note: see the module documentation.\n\n    (no behaviour here)\n    ")))
    return tree


def t_splitcond(tree):
    """`if a and b: X` (no else) -> `if a: if b: X`"""
    for n in ast.walk(tree):
        if isinstance(n, ast.If) and not n.orelse and isinstance(n.test, ast.BoolOp) and isinstance(n.test.op, ast.And) and len(n.test.values) == 2:
            a, b = n.test.values
            n.test = a
            n.body = [ast.If(test=b, body=n.body, orelse=[])]
    return tree


def t_whiletrue(tree):
    """`while c: B` (no else) -> `while True: if not c: break; B`"""
    for n in ast.walk(tree):
        if isinstance(n, ast.While) and not n.orelse and not (isinstance(n.test, ast.Constant) and n.test.value is True):
            n.body = [ast.If(test=_neg(n.test), body=[ast.Break()], orelse=[])] + n.body
            n.test = ast.Constant(True)
    return tree


def t_compr2loop(tree):
    """`x = [e for v in it]` at statement level in a function -> `x = []; for v in it: x.append(e)` (one generator, simple target,
    the loop variable is not otherwise a name of the function)"""
    for fn in ast.walk(tree):
        if not isinstance(fn, (ast.FunctionDef, ast.AsyncFunctionDef)) or _is_generator(fn):
            continue
        used = {n.id for n in ast.walk(fn) if isinstance(n, ast.Name)} | set(_params(fn))
        for owner, f, body in list(_blocks(fn)):
            new = []
            for s in body:
                if isinstance(s, ast.Assign) and len(s.targets) == 1 and isinstance(s.targets[0], ast.Name) and isinstance(s.value, ast.ListComp) \
                        and len(s.value.generators) == 1 and not s.value.generators[0].is_async:
                    g = s.value.generators[0]
                    tv = {n.id for n in ast.walk(g.target) if isinstance(n, ast.Name)}
                    x = s.targets[0].id
                    occurrences = sum(1 for n in ast.walk(fn) if isinstance(n, ast.Name) and n.id in tv)
                    inside = sum(1 for n in ast.walk(s) if isinstance(n, ast.Name) and n.id in tv)
                    reads_x = any(isinstance(n, ast.Name) and n.id == x for n in ast.walk(s.value))
                    if occurrences == inside and not reads_x and not any(isinstance(n, (ast.NamedExpr, ast.Lambda)) for n in ast.walk(s.value)):
                        new.append(ast.Assign(targets=[ast.Name(id=x, ctx=ast.Store())], value=ast.List(elts=[], ctx=ast.Load()), lineno=0))
                        inner = [ast.Expr(value=ast.Call(func=ast.Attribute(value=ast.Name(id=x, ctx=ast.Load()), attr="append", ctx=ast.Load()),
                                                         args=[s.value.elt], keywords=[]))]
                        for cond in reversed(g.ifs):
                            inner = [ast.If(test=cond, body=inner, orelse=[])]
                        new.append(ast.For(target=g.target, iter=g.iter, body=inner, orelse=[], lineno=0))
                        continue
                new.append(s)
            setattr(owner, f, new)
    return tree


class _Swap(ast.NodeTransformer):
    def visit_Compare(self, n):
        self.generic_visit(n)
        flip = {ast.Lt: ast.Gt, ast.Gt: ast.Lt, ast.LtE: ast.GtE, ast.GtE: ast.LtE, ast.Eq: ast.Eq, ast.NotEq: ast.NotEq}
        if len(n.ops) == 1 and type(n.ops[0]) in flip and not isinstance(n.comparators[0], ast.Constant):
            return ast.Compare(left=n.comparators[0], ops=[flip[type(n.ops[0])]()], comparators=[n.left])
        return n


def t_swapcmp(tree):
    """`a < b` -> `b > a` (neither side a literal)"""
    return _Swap().visit(tree)


def t_tuplesplit(tree):
    """`a, b = x, y` -> `a = x; b = y` when no target name is read by a later value"""
    for owner, f, body in list(_blocks(tree)):
        new = []
        for s in body:
            if isinstance(s, ast.Assign) and len(s.targets) == 1 and isinstance(s.targets[0], ast.Tuple) and isinstance(s.value, ast.Tuple) \
                    and len(s.targets[0].elts) == len(s.value.elts) and all(isinstance(t, ast.Name) for t in s.targets[0].elts) \
                    and not any(isinstance(v, ast.Starred) for v in s.value.elts):
                tg = [t.id for t in s.targets[0].elts]
                ok = True
                for i, v in enumerate(s.value.elts):
                    if any(isinstance(n, ast.Name) and n.id in tg[:i] for n in ast.walk(v)) or any(isinstance(n, ast.Call) for n in ast.walk(v)) and i > 0 and False:
                        ok = False
                if ok:
                    for t, v in zip(s.targets[0].elts, s.value.elts):
                        new.append(ast.Assign(targets=[t], value=v, lineno=0))
                    continue
            new.append(s)
        setattr(owner, f, new)
    return tree


def t_match2if(tree):
    """`match x: case <literal | literal>: ... case _: ...` -> if/elif chain (subject a plain name or attribute chain, no guards/captures)"""
    def lit(p):
        if isinstance(p, ast.MatchValue) and isinstance(p.value, (ast.Constant, ast.Attribute)):
            return [p.value]
        if isinstance(p, ast.MatchSingleton):
            return None
        if isinstance(p, ast.MatchOr):
            out = []
            for q in p.patterns:
                r = lit(q)
                if r is None:
                    return None
                out += r
            return out
        return None
    for owner, f, body in list(_blocks(tree)):
        new = []
        for s in body:
            if isinstance(s, ast.Match) and isinstance(s.subject, (ast.Name, ast.Attribute)) and all(c.guard is None for c in s.cases):
                arms, default, ok = [], None, True
                for c in s.cases:
                    if isinstance(c.pattern, ast.MatchAs) and c.pattern.pattern is None and c.pattern.name is None:
                        default = c.body
                        break
                    vals = lit(c.pattern)
                    if vals is None:
                        ok = False
                        break
                    tests = [ast.Compare(left=s.subject, ops=[ast.Eq()], comparators=[v]) for v in vals]
                    arms.append((tests[0] if len(tests) == 1 else ast.BoolOp(op=ast.Or(), values=tests), c.body))
                if ok and arms:
                    chain = default or []
                    for test, b in reversed(arms):
                        chain = [ast.If(test=test, body=b, orelse=chain)]
                    new.extend(chain)
                    continue
            new.append(s)
        setattr(owner, f, new)
    return tree


TRANSFORMS = {"rename": t_rename, "suffix": t_suffix, "ret": t_ret, "cmp": t_cmp, "flip": t_flip, "early": t_early,
              "nest": t_nest, "ann": t_ann, "tmpcall": t_tmpcall, "doc": t_doc,
              "splitcond": t_splitcond, "whiletrue": t_whiletrue, "compr2loop": t_compr2loop, "swapcmp": t_swapcmp,
              "tuplesplit": t_tuplesplit, "match2if": t_match2if}


def rewrite(src_root: str, dst_root: str, names, only=None) -> int:
    if os.path.exists(dst_root):
        shutil.rmtree(dst_root)
    os.makedirs(dst_root)
    shutil.copytree(os.path.join(src_root, "swcgeom"), os.path.join(dst_root, "swcgeom"),
                    ignore=shutil.ignore_patterns("__pycache__", "*.pyc"))
    if os.path.isdir(os.path.join(src_root, "tests")):
        shutil.copytree(os.path.join(src_root, "tests"), os.path.join(dst_root, "tests"), ignore=shutil.ignore_patterns("__pycache__", "*.pyc"))
    for extra in ("pyproject.toml", "setup.py", "setup.cfg", "pytest.ini", "conftest.py"):
        p = os.path.join(src_root, extra)
        if os.path.exists(p):
            shutil.copy(p, dst_root)
    n = 0
    for d, _, files in os.walk(os.path.join(dst_root, "swcgeom")):
        for f in files:
            if not f.endswith(".py"):
                continue
            p = os.path.join(d, f)
            if only and only not in p:
                continue
            src = open(p, encoding="utf-8").read()
            tree = ast.parse(src)
            for t in names:
                tree = TRANSFORMS[t](tree)
            ast.fix_missing_locations(tree)
            out = ast.unparse(tree)
            compile(out, p, "exec")
            open(p, "w", encoding="utf-8").write(out + "\n")
            n += 1
    return n


def main():
    args = [a for a in sys.argv[1:] if not a.startswith("--")]
    names = args[0].split(",")
    dst = os.path.abspath(args[1])
    src = "/repo"
    only = None
    if "--src" in sys.argv:
        src = sys.argv[sys.argv.index("--src") + 1]
    if "--only" in sys.argv:
        only = sys.argv[sys.argv.index("--only") + 1]
    n = rewrite(src, dst, names, only)
    print(f"{n} modules rewritten with {names} -> {dst}")
    if "--test" in sys.argv:
        r = subprocess.run(["/venv/bin/python", "-m", "pytest", "-q", "-p", "no:cacheprovider", "--timeout=900", "tests"], cwd=dst,
                           capture_output=True, text=True, env={**os.environ, "PYTHONPATH": dst, "PYTHONDONTWRITEBYTECODE": "1"})
        print((r.stdout + r.stderr).strip().splitlines()[-1])


if __name__ == "__main__":
    main()
