#!/venv/bin/python
"""Run every property check (strict mode: undecided = exit 2) against auto-refactored copies of the package.
usage: tools/ar_eval.py <dir-with-copies> [transform ...]   -> matrix transform x property of exit codes; details in /tmp/ar_eval.json"""
import json, os, subprocess, sys
from concurrent.futures import ThreadPoolExecutor
HERE = os.path.dirname(os.path.dirname(os.path.abspath(__file__)))
root = sys.argv[1]
names = sys.argv[2:] or sorted(os.listdir(root))
props = [f"C{i:02d}" for i in range(1, 21)]
def run(job):
    t, p = job
    r = subprocess.run(["/venv/bin/python", os.path.join(HERE, "check.py"), p, "--repo", os.path.join(root, t), "--no-evidence"],
                       capture_output=True, text=True, env={**os.environ, "VERIF_SELFTEST_CHILD": "1"})
    lines = [l for l in r.stdout.splitlines() if ": VIOLATION --" in l or ": UNRESOLVED --" in l or l.startswith("ANALYSIS-ERROR")]
    if r.returncode not in (0, 1, 2) or "Traceback" in r.stdout + r.stderr:
        lines.append((r.stdout + r.stderr)[-600:])
    return t, p, r.returncode, lines
with ThreadPoolExecutor(16) as ex:
    res = list(ex.map(run, [(t, p) for t in names for p in props]))
out = {}
for t, p, c, lines in res:
    out.setdefault(t, {})[p] = {"exit": c, "lines": lines}
print("transform  " + " ".join(p[1:] for p in props))
for t in names:
    print(f"{t:<10} " + " ".join({0: " .", 1: " V", 2: " u"}.get(out[t][p]["exit"], " X") for p in props))
json.dump(out, open("/tmp/ar_eval.json", "w"), indent=1)
nv = sum(1 for t in out for p in out[t] if out[t][p]["exit"] == 1)
nu = sum(1 for t in out for p in out[t] if out[t][p]["exit"] == 2)
print(f"false alarms: {nv}   no verdict: {nu}   of {len(res)}")
