#!/venv/bin/python
"""Run the self-validation corpus of one or all properties:  tools/selftest.py [Cxx ...]"""
import importlib, json, os, sys, time
HERE = os.path.dirname(os.path.dirname(os.path.abspath(__file__)))
sys.path.insert(0, HERE)
from sa import selftest  # noqa: E402

props = [a.upper() for a in sys.argv[1:]] or [f"C{i:02d}" for i in range(1, 21)]
bad = 0
for p in props:
    try:
        mod = importlib.import_module(f"sa.variants.{p.lower()}")
    except ModuleNotFoundError:
        continue
    t = time.time()
    res = selftest.run_corpus(p, mod.VARIANTS)
    print(f"{p}: {res['passed']}/{res['applicable']} variants as expected "
          f"({len(res['not_applicable'])} not applicable) {time.time() - t:.1f}s")
    for f in res["failed"]:
        bad += 1
        print(f"   FAILED {f['name']} expect={f['expect']} exit={f.get('exit')} {f.get('lines')} {f.get('stderr', '')}")
    for n in res["not_applicable"]:
        print(f"   n/a {n}")
sys.exit(1 if bad else 0)
