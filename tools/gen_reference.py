#!/venv/bin/python
"""Freeze the structural reference facts of the tree as confirmed today:  tools/gen_reference.py

sa/reference/dominance.json: for every anchored statement of every property, whether all paths of its function from
entry to a normal return pass through it.  The checks compare the current tree against this reference (a statement
that used to be unavoidable and can now be bypassed is reported as UNRESOLVED).  Re-run this ONLY after confirming by
reading that the tree satisfies the properties (the file is part of the rule tables, like the decision tables)."""
import importlib
import json
import os
import sys

HERE = os.path.dirname(os.path.dirname(os.path.abspath(__file__)))
sys.path.insert(0, HERE)
from sa import report  # noqa: E402
from sa.context import Context  # noqa: E402


def main():
    out = {}
    for i in range(1, 21):
        prop = f"C{i:02d}"
        mod = importlib.import_module(f"sa.props.{prop.lower()}")
        ctx = Context(None)
        col = report.Collector(prop)
        report._DOM_REF = {}  # no reference while recording
        mod.run(ctx, col, "quick")
        bad = [x for x in col.instances if x.verdict in (report.VIOLATION, report.UNRESOLVED)]
        if bad:
            print(f"{prop}: {len(bad)} instance(s) not OK -- reference NOT taken for this property")
            continue
        out[prop] = {k: v for k, v in sorted(col.dominance_seen.items())}
        print(f"{prop}: {len(out[prop])} anchored statements, {sum(1 for v in out[prop].values() if v)} unavoidable")
    p = os.path.join(HERE, "sa", "reference", "dominance.json")
    with open(p, "w", encoding="utf-8") as f:
        json.dump(out, f, indent=1, sort_keys=True)
    print("written", p)


if __name__ == "__main__":
    main()
