#!/venv/bin/python
"""Freeze the structural reference facts of the tree as confirmed today:  tools/gen_reference.py

sa/reference/dominance.json: for every anchored statement of every property, whether all paths of its function from
entry to a normal return pass through it.  The checks compare the current tree against this reference (a statement
that used to be unavoidable and can now be bypassed is reported as UNRESOLVED).  Re-run this ONLY after confirming by
reading that the tree satisfies the properties (the file is part of the rule tables, like the decision tables)."""
import importlib
import json
import os
import sys

HERE = os.path.dirname(os.path.dirname(os.path.abspath(__file__)))
sys.path.insert(0, HERE)
from sa import report  # noqa: E402
from sa.context import Context  # noqa: E402


def locals_reference():
    """sa/reference/locals.json: the local names (with the shape of their first binding) of every function of the tree
    the rule instances were confirmed on; sa/names.py renames a later tree's locals to these before the rules look."""
    import ast
    from sa import names, normal
    os.environ["VERIF_NORMAL"] = ",".join(x for x in normal.ACTIVE if x != "names")
    mods = {}
    root = "/repo"
    for d, _, files in os.walk(os.path.join(root, "swcgeom")):
        for f in sorted(files):
            if f.endswith(".py"):
                p = os.path.join(d, f)
                rel = os.path.relpath(p, root)[:-3].replace(os.sep, ".")
                if rel.endswith(".__init__"):
                    rel = rel[: -len(".__init__")]
                mods[rel] = normal.normalise(ast.parse(open(p, encoding="utf-8").read()), "")
    del os.environ["VERIF_NORMAL"]
    ref = names.make_reference(mods)
    with open(names.REF_PATH, "w", encoding="utf-8") as f:
        json.dump(ref, f, indent=0, sort_keys=True)
    print("written", names.REF_PATH, sum(len(v) for v in ref.values()), "functions")


def main():
    if "--locals" in sys.argv:
        locals_reference()
        return
    out = {}
    for i in range(1, 21):
        prop = f"C{i:02d}"
        mod = importlib.import_module(f"sa.props.{prop.lower()}")
        ctx = Context(None)
        col = report.Collector(prop)
        report._DOM_REF = {}  # no reference while recording
        mod.run(ctx, col, "quick")
        bad = [x for x in col.instances if x.verdict in (report.VIOLATION, report.UNRESOLVED)]
        if bad:
            print(f"{prop}: {len(bad)} instance(s) not OK -- reference NOT taken for this property")
            continue
        out[prop] = {k: v for k, v in sorted(col.dominance_seen.items())}
        print(f"{prop}: {len(out[prop])} anchored statements, {sum(1 for v in out[prop].values() if v)} unavoidable")
    p = os.path.join(HERE, "sa", "reference", "dominance.json")
    with open(p, "w", encoding="utf-8") as f:
        json.dump(out, f, indent=1, sort_keys=True)
    print("written", p)


if __name__ == "__main__":
    main()
