#!/venv/bin/python
"""Validate seeded changes and run the property checks against them.

usage: tools/seed_validate.py <dir-with-Cxx/mK-or-seeded-ids> [--no-tests] [ids...]

For every <root>/<name>/ containing patch.diff + demo.py + meta.json:
  1. copy /repo's working tree (without .git) to a scratch directory under /tmp
  2. demo.py must exit 0 on the unchanged copy
  3. `patch -p1 < patch.diff` must apply; demo.py must then exit non-zero
  4. the pinned test suite must still pass on the patched copy (81 passed)
  5. /verif/check.py <prop> --repo <patched copy> is run: exit 1 = caught
The scratch copy is removed afterwards.  Nothing is written to /repo.
"""
import json
import os
import shutil
import subprocess
import sys
import tempfile
from concurrent.futures import ThreadPoolExecutor

HERE = os.path.dirname(os.path.dirname(os.path.abspath(__file__)))
PY = "/venv/bin/python"


def sh(cmd, cwd, timeout=900, env=None):
    e = {**os.environ, "PYTHONPATH": cwd, "PYTHONDONTWRITEBYTECODE": "1"}
    if env:
        e.update(env)
    r = subprocess.run(cmd, cwd=cwd, capture_output=True, text=True, timeout=timeout, env=e)
    return r.returncode, (r.stdout + r.stderr)


def one(path, run_tests=True, props=None):
    meta = json.load(open(os.path.join(path, "meta.json")))
    prop = meta.get("property") or meta.get("breaks")
    tmp = tempfile.mkdtemp(prefix="seedval_")
    dst = os.path.join(tmp, "repo")
    out = {"seed": path, "property": prop}
    try:
        shutil.copytree("/repo", dst, ignore=shutil.ignore_patterns(".git", "__pycache__", "*.pyc", "*.egg-info"))
        demo = os.path.join(path, "demo.py")
        shutil.copy(demo, os.path.join(dst, "_demo.py"))
        c0, o0 = sh([PY, "_demo.py"], dst, 300)
        out["demo_clean"] = c0
        if c0 != 0:
            out["demo_clean_out"] = o0[-400:]
        r = subprocess.run(["patch", "-p1", "--no-backup-if-mismatch", "-i", os.path.join(path, "patch.diff")],
                           cwd=dst, capture_output=True, text=True)
        out["applies"] = r.returncode == 0
        if r.returncode != 0:
            out["apply_out"] = (r.stdout + r.stderr)[-300:]
            return out
        c1, o1 = sh([PY, "_demo.py"], dst, 300)
        out["demo_patched"] = c1
        out["demo_patched_tail"] = o1.strip().splitlines()[-1][:200] if o1.strip() else ""
        if run_tests:
            c2, o2 = sh([PY, "-m", "pytest", "-q", "-p", "no:cacheprovider", "--timeout=900", "tests"], dst, 900)
            out["tests"] = o2.strip().splitlines()[-1] if o2.strip() else str(c2)
        os.remove(os.path.join(dst, "_demo.py"))
        checks = {}
        for p in (props or [prop]):
            r = subprocess.run([PY, os.path.join(HERE, "check.py"), p, "--repo", dst, "--no-evidence"],
                               capture_output=True, text=True, timeout=600,
                               env={**os.environ, "VERIF_SELFTEST_CHILD": "1"})
            lines = [l for l in r.stdout.splitlines() if ": VIOLATION --" in l or l.startswith("ANALYSIS-ERROR") or ": UNRESOLVED --" in l]
            lines.sort(key=lambda l: 0 if ": VIOLATION --" in l else 1)
            checks[p] = {"exit": r.returncode, "lines": [l[:300] for l in lines[:4]]}
        out["checks"] = checks
        out["caught_by"] = [p for p, c in checks.items() if c["exit"] == 1]
        return out
    finally:
        shutil.rmtree(tmp, ignore_errors=True)


def main():
    args = [a for a in sys.argv[1:] if not a.startswith("--")]
    root = os.path.abspath(args[0])
    only = set(args[1:])
    run_tests = "--no-tests" not in sys.argv
    allprops = "--all-props" in sys.argv
    seeds = []
    for d, _, files in sorted(os.walk(root)):
        if {"patch.diff", "demo.py", "meta.json"} <= set(files):
            rel = os.path.relpath(d, root)
            if json.load(open(os.path.join(d, "meta.json"))).get("superseded"):
                continue   # kept for the record only: its premise went away with a later repair of /repo
            if not only or any(rel.startswith(o) or o in rel for o in only):
                seeds.append(d)
    claimed = None
    if allprops:
        m = json.load(open(os.path.join(HERE, "MANIFEST.json")))
        claimed = [c["property_id"] for c in m["checks"]]
    with ThreadPoolExecutor(max_workers=8) as ex:
        res = list(ex.map(lambda s: one(s, run_tests, claimed), seeds))
    refactor = "--refactor" in sys.argv
    for r in res:
        if refactor:
            valid = r.get("demo_clean") == 0 and r.get("applies") and r.get("demo_patched", 1) == 0 and \
                (not run_tests or "81 passed" in r.get("tests", ""))
            r["valid"] = bool(valid)
            ex = {p: c["exit"] for p, c in (r.get("checks") or {}).items()}
            tag = "silent" if all(v == 0 for v in ex.values()) else ("FALSE-ALARM" if 1 in ex.values() else "unresolved(exit 2)")
            print(f"{os.path.relpath(r['seed'], root):<12} prop={r['property']} valid={valid} demo={r.get('demo_clean')}/{r.get('demo_patched')} "
                  f"tests={r.get('tests', '-')[:12]!r} -> {tag} {ex}")
            for p, c in (r.get("checks") or {}).items():
                for l in c["lines"][:3]:
                    print(f"      [{p} exit={c['exit']}] {l[:260]}")
            continue
        valid = r.get("demo_clean") == 0 and r.get("applies") and r.get("demo_patched", 0) != 0 and \
            (not run_tests or "81 passed" in r.get("tests", ""))
        r["valid"] = bool(valid)
        print(f"{os.path.relpath(r['seed'], root):<12} prop={r['property']} valid={valid} "
              f"demo={r.get('demo_clean')}/{r.get('demo_patched')} tests={r.get('tests', '-')[:24]!r} "
              f"caught_by={r.get('caught_by')}")
        if not valid:
            print("    ", {k: v for k, v in r.items() if k.endswith("_out") or k == "demo_patched_tail"})
        for p, c in (r.get("checks") or {}).items():
            for l in c["lines"][:2]:
                print(f"      [{p} exit={c['exit']}] {l[:220]}")
    json.dump(res, open("/tmp/seed_validate_last.json", "w"), indent=1)
    if "--record" in sys.argv:
        # write what was confirmed here into each meta.json (kept with the seed under /verif/seeded)
        for r in res:
            mp = os.path.join(r["seed"], "meta.json")
            m = json.load(open(mp))
            prop = r["property"]
            ck = (r.get("checks") or {}).get(prop, {})
            if "tests" not in r and (m.get("confirmed") or {}).get("tests_on_patched", "").endswith(tuple("s")) and "passed" in m["confirmed"]["tests_on_patched"]:
                r["tests"] = m["confirmed"]["tests_on_patched"] + " (earlier pass of this tool)"
            m["confirmed"] = {
                "how": "tools/seed_validate.py on a scratch copy of /repo under /tmp (removed afterwards): demo on the unchanged copy, "
                       "patch applied, demo again, pinned test suite on the patched copy, then check.py <property> --repo <copy>",
                "demo_unchanged_exit": r.get("demo_clean"), "patch_applies": r.get("applies"), "demo_patched_exit": r.get("demo_patched"),
                "demo_patched_last_line": r.get("demo_patched_tail"), "tests_on_patched": r.get("tests", "not run in this pass"),
                "check_exit": ck.get("exit"), "check_lines": ck.get("lines", [])[:3],
                "caught": ck.get("exit") == 1,
                "detection": "VIOLATION (exit 1)" if ck.get("exit") == 1 else ("no verdict (undecided instances; the registered command exits 0 with NO-VERDICT lines, the tools run with VERIF_STRICT=1 where that is exit 2)" if ck.get("exit") == 2 else "missed (exit 0)"),
            }
            if refactor:
                m["confirmed"].pop("caught")
                m["confirmed"]["detection"] = {0: "silent (exit 0)", 2: "no verdict (undecided instances listed; registered command exits 0, strict mode 2)", 1: "FALSE ALARM (exit 1)"}.get(ck.get("exit"), str(ck.get("exit")))
            json.dump(m, open(mp, "w"), indent=2)


if __name__ == "__main__":
    main()
